//! Degenerate datasets for C20 (and reused by other checks as hostile inputs).

use rand::rngs::StdRng;
use rand::Rng;

pub const N_KINDS: u8 = 9;

pub fn kind_name(k: u8) -> &'static str {
    ["one-vector-repeated", "k-distinct-repeated", "zeros-mixed-in", "points-on-a-line", "coords-in-0-pm1", "huge-magnitudes", "subnormals", "nan-inf-components", "constant-coordinates"][k as usize % N_KINDS as usize]
}

pub fn gen_degenerate(rng: &mut StdRng, dims: usize, kind: u8, pool: &[Vec<f32>]) -> Vec<f32> {
    let uni = |rng: &mut StdRng| -> Vec<f32> { (0..dims).map(|_| rng.gen_range(-1.0f32..1.0)).collect() };
    match kind % N_KINDS {
        0 => pool.first().cloned().unwrap_or_else(|| uni(rng)),
        1 => {
            if pool.len() < 3 {
                uni(rng)
            } else {
                pool[rng.gen_range(0..3)].clone()
            }
        }
        2 => {
            if rng.gen_bool(0.5) {
                vec![if rng.gen_bool(0.5) { 0.0 } else { -0.0 }; dims]
            } else {
                uni(rng)
            }
        }
        3 => {
            let dir: Vec<f32> = pool.first().cloned().unwrap_or_else(|| uni(rng));
            let t = rng.gen_range(-4i32..5) as f32 * 0.5;
            dir.iter().map(|d| d * t).collect()
        }
        4 => (0..dims).map(|_| [0.0f32, 1.0, -1.0][rng.gen_range(0..3)]).collect(),
        5 => (0..dims)
            .map(|_| match rng.gen_range(0..4) {
                0 => f32::MAX,
                1 => -f32::MAX,
                2 => rng.gen_range(1e30f32..3e38),
                _ => -rng.gen_range(1e30f32..3e38),
            })
            .collect(),
        6 => (0..dims).map(|_| f32::from_bits(rng.gen_range(0..0x0080_0000u32) | if rng.gen_bool(0.5) { 0x8000_0000 } else { 0 })).collect(),
        7 => (0..dims)
            .map(|_| match rng.gen_range(0..8) {
                0 => f32::NAN,
                1 => -f32::NAN,
                2 => f32::INFINITY,
                3 => f32::NEG_INFINITY,
                _ => rng.gen_range(-1.0f32..1.0),
            })
            .collect(),
        _ => {
            let c = rng.gen_range(-3i32..4) as f32;
            vec![c; dims]
        }
    }
}
