//! C11 — reported distances equal the metric's definition for every vector shape.
//!
//! Drives the public `Distance` functions on `Leaf`s made with `UnalignedVector::from_bytes` at
//! chosen byte offsets inside exact-size heap allocations (so that an over-read is an ASan / Miri
//! report), and — through the `arroy_verif` hook — every kernel (plain / SSE / AVX) directly,
//! whatever the runtime dispatch would pick.

use std::borrow::Cow;
use std::collections::BTreeSet;

use arroy::internals::{Leaf, UnalignedVector};
use arroy::Distance;
use rand::rngs::StdRng;
use rand::{Rng, SeedableRng};

use crate::metric::Metric;
use crate::oracle::{self, dist_ok};
use crate::util::{case_seed, fmt_f32s, hash_str, Counters, J};
use crate::{emit, line, Args};

pub const N_CLASSES: usize = 10;

pub fn class_name(c: usize) -> &'static str {
    ["grid", "uniform", "cancellation-prone", "tiny", "huge", "signed-zero+subnormal", "mixed-magnitude", "sparse-with-zeros", "pure-subnormal", "underflowing-products"][c]
}

pub fn gen_values(rng: &mut StdRng, n: usize, class: usize) -> Vec<f32> {
    (0..n)
        .map(|_| match class {
            0 => rng.gen_range(-64i32..64) as f32 / 8.0,
            1 => rng.gen_range(-1.0f32..1.0),
            2 => 4096.0 + rng.gen_range(-1.0f32..1.0) * 1e-3,
            3 => rng.gen_range(1.0f32..1000.0) * 1e-18 * if rng.gen_bool(0.5) { -1.0 } else { 1.0 },
            4 => rng.gen_range(1.0f32..100.0) * 1e15 * if rng.gen_bool(0.5) { -1.0 } else { 1.0 },
            5 => match rng.gen_range(0..5) {
                0 => 0.0,
                1 => -0.0,
                2 => f32::from_bits(rng.gen_range(1..0x0080_0000u32)),
                3 => -f32::from_bits(rng.gen_range(1..0x0080_0000u32)),
                _ => rng.gen_range(-1.0f32..1.0) * 1e-3,
            },
            // every component subnormal or zero: sums of differences stay subnormal
            8 => match rng.gen_range(0..4) {
                0 => 0.0,
                1 => -f32::from_bits(rng.gen_range(1..0x0080_0000u32)),
                _ => f32::from_bits(rng.gen_range(1..0x0080_0000u32)),
            },
            // normal components whose squares and products are subnormal (gradual underflow in every lane)
            9 => rng.gen_range(1.0f32..1000.0) * 1e-22 * if rng.gen_bool(0.5) { -1.0 } else { 1.0 },
            6 => {
                let e = rng.gen_range(-6i32..7);
                rng.gen_range(-1.0f32..1.0) * 10f32.powi(e)
            }
            _ => {
                if rng.gen_bool(0.7) {
                    0.0
                } else {
                    rng.gen_range(-2.0f32..2.0)
                }
            }
        })
        .collect()
}

/// exact-size heap allocation holding `vals` at byte offset `off`
pub fn place(vals: &[f32], off: usize) -> Box<[u8]> {
    let mut v = Vec::with_capacity(off + vals.len() * 4);
    v.extend(std::iter::repeat(0xA5u8).take(off));
    for x in vals {
        v.extend_from_slice(&x.to_ne_bytes());
    }
    v.into_boxed_slice()
}

fn leaf<'a, D: Distance>(buf: &'a [u8], off: usize) -> Leaf<'a, D> {
    let vector: Cow<'a, UnalignedVector<D::VectorCodec>> = UnalignedVector::<D::VectorCodec>::from_bytes(&buf[off..]).unwrap();
    let header = D::new_header(&vector);
    Leaf { header, vector }
}

struct Ctx<'a> {
    c: &'a mut Counters,
    sigs: &'a mut BTreeSet<u64>,
}

fn check_metric<D: Distance>(metric: Metric, a: &[f32], b: &[f32], oa: usize, ob: usize, cx: &mut Ctx) -> Result<(), String> {
    let n = a.len();
    let ba = place(a, oa);
    let bb = place(b, ob);
    let p = leaf::<D>(&ba, oa);
    let q = leaf::<D>(&bb, ob);
    let raw = D::built_distance(&p, &q);
    let rep = D::normalized_distance(raw, n);
    let o = oracle::distance(metric, a, b);
    if !dist_ok(&o, rep) {
        return Err(format!(
            "{} distance of two {n}-vectors at byte offsets {oa}/{ob}: arroy {rep:e}, definition {:e} (tolerance {:e}); a={} b={}",
            metric.short(),
            o.d,
            o.tol,
            fmt_f32s(a),
            fmt_f32s(b)
        ));
    }
    cx.c.inc("c11_distances_vs_definition");
    // symmetry, bit for bit
    let raw2 = D::built_distance(&q, &p);
    if raw.to_bits() != raw2.to_bits() && !(raw.is_nan() && raw2.is_nan()) {
        return Err(format!("{} distance is not symmetric for n={n} offsets {oa}/{ob}: d(a,b)={raw:e} d(b,a)={raw2:e}", metric.short()));
    }
    cx.c.inc("c11_symmetry");
    // self distance
    if metric != Metric::DotProduct {
        let p2 = leaf::<D>(&ba, oa);
        let s = D::normalized_distance(D::built_distance(&p, &p2), n);
        let so = oracle::distance(metric, a, a);
        let ok = match metric {
            Metric::Cosine => dist_ok(&so, s) && (0.0..=1.0).contains(&s),
            _ => s == 0.0,
        };
        if !ok {
            return Err(format!("{} self-distance of a {n}-vector at offset {oa} is {s:e}; a={}", metric.short(), fmt_f32s(a)));
        }
        cx.c.inc("c11_self_distance");
    }
    if metric == Metric::Cosine && o.accurate && !(0.0..=1.0).contains(&rep) {
        return Err(format!("cosine distance {rep:e} outside [0,1] for n={n}"));
    }
    // norm
    let nn = D::norm_no_header(&p.vector);
    let mut s = 0f64;
    for x in a {
        s += oracle::wide(*x) * oracle::wide(*x);
    }
    let want = s.sqrt();
    let tol = want * (n as f64 + 10.0) * 1.2e-7 + (n as f64 * 2f64.powi(-140)).sqrt();
    if s < 1e37 && (oracle::wide(nn) - want).abs() > tol {
        return Err(format!("{} norm of a {n}-vector at offset {oa}: arroy {nn:e}, definition {want:e} (tolerance {tol:e})", metric.short()));
    }
    cx.c.inc("c11_norms");
    Ok(())
}

#[cfg(arroy_verif)]
fn check_kernels(a: &[f32], b: &[f32], oa: usize, ob: usize, cx: &mut Ctx) -> Result<(), String> {
    use arroy::verif::kernels as k;
    let n = a.len();
    let ba = place(a, oa);
    let bb = place(b, ob);
    let u = UnalignedVector::<f32>::from_bytes(&ba[oa..]).unwrap();
    let v = UnalignedVector::<f32>::from_bytes(&bb[ob..]).unwrap();
    let (mut se, mut sd, mut sda) = (0f64, 0f64, 0f64);
    for (x, y) in a.iter().zip(b) {
        let t = oracle::wide(*x) - oracle::wide(*y);
        se += t * t;
        let m = oracle::wide(*x) * oracle::wide(*y);
        sd += m;
        sda += m.abs();
    }
    let rel = (n as f64 + 8.0) * 1.1920928955078125e-7;
    let tiny = n as f64 * 2f64.powi(-140);
    let tol_e = rel * se + tiny;
    let tol_d = rel * sda + tiny;
    let pe = k::plain_euclid(&u, &v);
    let pd = k::plain_dot(&u, &v);
    let mut all: Vec<(&str, f32, f32)> = vec![("plain", pe, pd)];
    if let (Some(e), Some(d)) = (k::sse_euclid(&u, &v), k::sse_dot(&u, &v)) {
        all.push(("sse", e, d));
        cx.c.inc("c11_sse_kernel_calls");
    }
    if let (Some(e), Some(d)) = (k::avx_euclid(&u, &v), k::avx_dot(&u, &v)) {
        all.push(("avx", e, d));
        cx.c.inc("c11_avx_kernel_calls");
    }
    for (name, e, d) in &all {
        if se < 1e37 && (oracle::wide(*e) - se).abs() > tol_e {
            return Err(format!("{name} squared-euclidean kernel, n={n} offsets {oa}/{ob}: {e:e} vs definition {se:e} (tolerance {tol_e:e}); a={} b={}", fmt_f32s(a), fmt_f32s(b)));
        }
        if sda < 1e37 && (oracle::wide(*d) - sd).abs() > tol_d {
            return Err(format!("{name} dot-product kernel, n={n} offsets {oa}/{ob}: {d:e} vs definition {sd:e} (tolerance {tol_d:e}); a={} b={}", fmt_f32s(a), fmt_f32s(b)));
        }
        // vectorised vs plain within the sum of both bounds
        if se < 1e37 && (oracle::wide(*e) - oracle::wide(pe)).abs() > 2.0 * tol_e {
            return Err(format!("{name} squared-euclidean kernel disagrees with the plain loop for n={n}: {e:e} vs {pe:e}"));
        }
        if sda < 1e37 && (oracle::wide(*d) - oracle::wide(pd)).abs() > 2.0 * tol_d {
            return Err(format!("{name} dot-product kernel disagrees with the plain loop for n={n}: {d:e} vs {pd:e}"));
        }
        cx.c.inc("c11_kernel_results_checked");
    }
    // the dispatcher picks the documented kernel for this length
    let want = if n >= 32 && all.iter().any(|x| x.0 == "avx") {
        "avx"
    } else if n >= 16 && all.iter().any(|x| x.0 == "sse") {
        "sse"
    } else {
        "plain"
    };
    let w = all.iter().find(|x| x.0 == want).unwrap();
    let de = k::dispatched_euclid(&u, &v);
    let dd = k::dispatched_dot(&u, &v);
    if de.to_bits() != w.1.to_bits() || dd.to_bits() != w.2.to_bits() {
        return Err(format!("dispatch for n={n} does not give the {want} kernel's result: euclid {de:e} vs {:e}, dot {dd:e} vs {:e}", w.1, w.2));
    }
    cx.c.inc(&format!("c11_dispatch_{want}"));
    Ok(())
}

#[cfg(not(arroy_verif))]
fn check_kernels(_a: &[f32], _b: &[f32], _oa: usize, _ob: usize, _cx: &mut Ctx) -> Result<(), String> {
    Ok(())
}

pub fn run(args: &Args) {
    let seed = args.get_u64("seed", 0);
    let shard = args.get_u64("shard", 0);
    let nshards = args.get_u64("nshards", 1);
    let thorough = args.get("tier") == Some("thorough");
    let max_len = args.get_u64("max-len", 300) as usize;
    let reps = args.get_u64("reps", if thorough { 2000 } else { 150 });
    let replay = args.kv.get("replay").map(|s| crate::parse_u64(s));
    crate::engine::install_quiet_panic_hook();
    let mut c = Counters::default();
    let mut sigs: BTreeSet<u64> = BTreeSet::new();
    let mut samples = Vec::new();
    let t0 = std::time::Instant::now();
    // case = (len, offset pair index, rep): every len 1..=max_len x 16 offset pairs
    let mut idx = 0u64;
    // order of stored-vector offsets: the first few are the most diverse (aligned, odd, 4-aligned, 7)
    const OFFSETS: [usize; 16] = [0, 1, 4, 7, 2, 3, 5, 6, 8, 9, 10, 11, 12, 13, 14, 15];
    let n_offsets = args.get_u64("offsets", 16) as usize;
    let class_mask = args.get_u64("classes", 0x3ff);
    for len in 1..=max_len {
        for opair in OFFSETS.iter().copied().take(n_offsets) {
            for rep in 0..reps {
                idx += 1;
                if idx % nshards != shard {
                    continue;
                }
                let cs = case_seed(seed, "C11", (len as u64) << 24 | (opair as u64) << 16 | rep);
                if let Some(r) = replay {
                    if r != cs {
                        continue;
                    }
                }
                line(&format!("BEGIN {cs:#x}"));
                let mut rng = StdRng::seed_from_u64(cs);
                // offsets: the stored vector takes every byte offset 0..=15, the other side a random one
                let oa = opair;
                let ob = rng.gen_range(0..16usize);
                let mut verdict = "ok";
                for class in (0..N_CLASSES).filter(|c| class_mask >> c & 1 == 1) {
                    let a = gen_values(&mut rng, len, class);
                    let b = if class == 2 || rng.gen_bool(0.8) { gen_values(&mut rng, len, class) } else { a.clone() };
                    let mut cx = Ctx { c: &mut c, sigs: &mut sigs };
                    let mut res = check_kernels(&a, &b, oa, ob, &mut cx);
                    for m in [Metric::Euclidean, Metric::Manhattan, Metric::Cosine, Metric::DotProduct] {
                        if res.is_err() {
                            break;
                        }
                        res = crate::engine::guarded(|| crate::with_metric!(m, D, check_metric::<D>(m, &a, &b, oa, ob, &mut cx)))
                            .unwrap_or_else(|p| Err(format!("panic: {p}")));
                    }
                    cx.sigs.insert(hash_str(&format!("{len}|{oa}|{class}")));
                    if let Err(msg) = res {
                        c.inc("violations");
                        emit(
                            "VIOL",
                            &J::obj()
                                .set("property", J::s("C11"))
                                .set("case_seed", J::s(format!("{cs:#x}")))
                                .set("key", J::s(format!("kernel:{}", class_name(class))))
                                .set("step", J::i(class as u64))
                                .set("msg", J::s(msg)),
                        );
                        verdict = "violation";
                        break;
                    }
                    if samples.len() < 2 && len == 37 && class == 1 {
                        samples.push(J::obj().set("len", J::i(len as u64)).set("byte_offsets", J::s(format!("{oa}/{ob}"))).set("class", J::s(class_name(class))).set("a", J::s(fmt_f32s(&a))).set("b", J::s(fmt_f32s(&b))));
                    }
                }
                c.inc("cases");
                line(&format!("END {cs:#x} {verdict}"));
            }
        }
    }
    if samples.is_empty() {
        samples.push(J::obj().set("note", J::s("case = (length, byte offsets, value class) -> pairs of vectors; see rule")));
    }
    let j = J::obj()
        .set("property", J::s("C11"))
        .set("counters", c.to_json())
        .set("sigs", J::Arr(sigs.iter().map(|s| J::s(format!("{s:x}"))).collect()))
        .set("samples", J::Arr(samples))
        .set("rule", J::s("case = (length 1..=max_len, byte offset 0..=15 of the stored vector, repetition); per case 10 value classes (grid, uniform, cancellation-prone, tiny, huge, signed-zero+subnormal, mixed-magnitude, sparse, pure-subnormal, underflowing-products) x {Euclidean, Manhattan, Cosine, DotProduct} through the public Distance functions on Leafs borrowed at that offset from exact-size heap buffers, plus every kernel (plain/SSE/AVX) through the hook and the dispatch rule; non-trivial+distinct = distinct (length, offset, class) triples"))
        .set("required", J::Arr(["c11_distances_vs_definition", "c11_symmetry", "c11_self_distance", "c11_norms"].iter().map(|s| J::s(*s)).collect()))
        .set("wall_s", J::Num(t0.elapsed().as_secs_f64()));
    emit("SUMMARY", &j);
}
