//! C16 — the on-disk format stays readable.
//!
//! Forward: golden key/value fixtures (generated once by the reference tree with `fixtures-gen`,
//! committed under /verif/fixtures) are loaded through raw `Bytes` puts and must open, show the
//! same items, pass C01, answer the recorded queries identically and accept an incremental update.
//! Backward: keys written through the public API over the boundary lattice of index x id must have
//! the reference encoding and come back from LMDB in (index, kind, id) order; every dump the
//! explorer produces must decode under the reference layout (explorer leg, `Checks::decode`).

use std::collections::{BTreeMap, BTreeSet};
use std::num::NonZeroUsize;

use arroy::{Distance, Reader, Writer};
use rand::rngs::StdRng;
use rand::{Rng, SeedableRng};

use crate::engine::{self, adb, guarded, IndexModel, World};
use crate::forest;
use crate::metric::{Metric, ALL_METRICS};
use crate::oracle::{self, TopkSpec};
use crate::rawdb::{self, Dump, KIND_ITEM, KIND_METADATA, KIND_TREE, KIND_UPDATED};
use crate::util::{case_seed, hash_str, hex, unhex, Counters, J};
use crate::{emit, line, with_metric, Args};

const DIMS: usize = 5;

fn f32s_hex(v: &[f32]) -> String {
    let mut b = Vec::new();
    for x in v {
        b.extend_from_slice(&x.to_le_bytes());
    }
    hex(&b)
}

fn hex_f32s(s: &str) -> Vec<f32> {
    unhex(s).chunks_exact(4).map(|c| f32::from_le_bytes(c.try_into().unwrap())).collect()
}

pub fn fixtures_dir() -> std::path::PathBuf {
    let root = std::env::var("VERIF_ROOT").unwrap_or_else(|_| "/verif".to_string());
    std::path::Path::new(&root).join("fixtures")
}

struct FixIndex {
    index: u16,
    built: bool,
    pending: bool,
    items: BTreeMap<u32, Vec<f32>>,
    /// (count, search_k or 0 for unset, query, results)
    queries: Vec<(usize, usize, Vec<f32>, Vec<(u32, f32)>)>,
}

struct Fixture {
    metric: Metric,
    kv: Dump,
    indexes: Vec<FixIndex>,
}

fn gen_for<D: Distance>(metric: Metric) -> Fixture {
    let world = World::new(64 << 20, false);
    let mut rng = StdRng::seed_from_u64(0xF1C5 ^ metric.idx() as u64);
    let mut wtxn = world.env.write_txn().unwrap();
    let mut indexes = Vec::new();
    let vecf = |rng: &mut StdRng| -> Vec<f32> { (0..DIMS).map(|_| (rng.gen_range(-64i32..64) as f32) / 8.0 + rng.gen_range(-0.01f32..0.01)).collect() };
    // index 7: deep forest with single-item children, ids at the edges
    {
        let w = Writer::<D>::new(adb::<D>(world.db), 7, DIMS);
        let mut items = BTreeMap::new();
        let ids: Vec<u32> = (0..38u32).chain([255, 256, 65535, 65536, 1 << 24, 1 << 31, u32::MAX - 1, u32::MAX]).collect();
        for id in ids {
            let v = vecf(&mut rng);
            w.add_item(&mut wtxn, id, &v).unwrap();
            items.insert(id, v);
        }
        let mut r = StdRng::seed_from_u64(11);
        w.builder(&mut r).n_trees(3).split_after(3).build(&mut wtxn).unwrap();
        // an incremental round so that recycled ids / rewritten parents are part of the fixture
        for id in [3u32, 9, 255] {
            w.del_item(&mut wtxn, id).unwrap();
            items.remove(&id);
        }
        for id in [100u32, 101, 5] {
            let v = vecf(&mut rng);
            w.add_item(&mut wtxn, id, &v).unwrap();
            items.insert(id, v);
        }
        let mut r = StdRng::seed_from_u64(12);
        w.builder(&mut r).n_trees(3).split_after(3).build(&mut wtxn).unwrap();
        let reader = Reader::<D>::open(&wtxn, 7, adb::<D>(world.db)).unwrap();
        let mut queries = Vec::new();
        for k in 0..6 {
            let q = if k % 2 == 0 { vecf(&mut rng) } else { items.values().nth(k * 5).unwrap().clone() };
            let (count, sk) = if k < 4 { (10usize, usize::MAX) } else { (5usize, 0usize) };
            let mut qb = reader.nns(count);
            if sk != 0 {
                qb.search_k(NonZeroUsize::new(sk).unwrap());
            }
            let res = qb.by_vector(&wtxn, &q).unwrap();
            queries.push((count, sk, q, res));
        }
        indexes.push(FixIndex { index: 7, built: true, pending: false, items, queries });
    }
    // index 8: built, then updates left pending
    {
        let w = Writer::<D>::new(adb::<D>(world.db), 8, DIMS);
        let mut items = BTreeMap::new();
        for id in 0..14u32 {
            let v = vecf(&mut rng);
            w.add_item(&mut wtxn, id, &v).unwrap();
            items.insert(id, v);
        }
        let mut r = StdRng::seed_from_u64(13);
        w.builder(&mut r).n_trees(2).split_after(4).build(&mut wtxn).unwrap();
        w.del_item(&mut wtxn, 2).unwrap();
        items.remove(&2);
        for id in [40u32, 41] {
            let v = vecf(&mut rng);
            w.add_item(&mut wtxn, id, &v).unwrap();
            items.insert(id, v);
        }
        indexes.push(FixIndex { index: 8, built: true, pending: true, items, queries: vec![] });
    }
    // index 65535: fits one bucket (version record written by that path)
    {
        let w = Writer::<D>::new(adb::<D>(world.db), 65535, DIMS);
        let mut items = BTreeMap::new();
        for id in [0u32, 7, u32::MAX] {
            let v = vecf(&mut rng);
            w.add_item(&mut wtxn, id, &v).unwrap();
            items.insert(id, v);
        }
        let mut r = StdRng::seed_from_u64(14);
        w.builder(&mut r).build(&mut wtxn).unwrap();
        indexes.push(FixIndex { index: 65535, built: true, pending: false, items, queries: vec![] });
    }
    wtxn.commit().unwrap();
    let rtxn = world.env.read_txn().unwrap();
    let kv = rawdb::dump(&rtxn, world.db).unwrap();
    Fixture { metric, kv, indexes }
}

fn write_fixture(f: &Fixture) -> String {
    let mut s = String::new();
    s.push_str(&format!("FIXTURE {} dims={}\n", f.metric.short(), DIMS));
    for (k, v) in &f.kv {
        s.push_str(&format!("KV {} {}\n", hex(k), if v.is_empty() { "-".to_string() } else { hex(v) }));
    }
    for ix in &f.indexes {
        s.push_str(&format!("INDEX {} built={} pending={}\n", ix.index, ix.built as u8, ix.pending as u8));
        for (id, v) in &ix.items {
            s.push_str(&format!("ITEM {} {} {}\n", ix.index, id, f32s_hex(v)));
        }
        for (count, sk, q, res) in &ix.queries {
            let r: Vec<String> = res.iter().map(|(id, d)| format!("{id}:{:08x}", d.to_bits())).collect();
            s.push_str(&format!("QUERY {} {} {} {} {}\n", ix.index, count, sk, f32s_hex(q), r.join(",")));
        }
    }
    s.push_str("END\n");
    s
}

fn read_fixture(text: &str) -> Result<Fixture, String> {
    let mut metric = None;
    let mut kv = Vec::new();
    let mut indexes: Vec<FixIndex> = Vec::new();
    for l in text.lines() {
        let p: Vec<&str> = l.split(' ').collect();
        match p[0] {
            "FIXTURE" => metric = Metric::from_short(p[1]),
            "KV" => kv.push((unhex(p[1]), if p[2] == "-" { Vec::new() } else { unhex(p[2]) })),
            "INDEX" => indexes.push(FixIndex { index: p[1].parse().unwrap(), built: p[2] == "built=1", pending: p[3] == "pending=1", items: BTreeMap::new(), queries: vec![] }),
            "ITEM" => {
                let ix: u16 = p[1].parse().unwrap();
                indexes.iter_mut().find(|i| i.index == ix).unwrap().items.insert(p[2].parse().unwrap(), hex_f32s(p[3]));
            }
            "QUERY" => {
                let ix: u16 = p[1].parse().unwrap();
                let res: Vec<(u32, f32)> = if p.len() > 5 && !p[5].is_empty() {
                    p[5].split(',').map(|e| {
                        let (a, b) = e.split_once(':').unwrap();
                        (a.parse().unwrap(), f32::from_bits(u32::from_str_radix(b, 16).unwrap()))
                    }).collect()
                } else {
                    vec![]
                };
                indexes.iter_mut().find(|i| i.index == ix).unwrap().queries.push((p[2].parse().unwrap(), p[3].parse().unwrap(), hex_f32s(p[4]), res));
            }
            "END" => {}
            _ => return Err(format!("bad fixture line: {l}")),
        }
    }
    Ok(Fixture { metric: metric.ok_or("no FIXTURE line")?, kv, indexes })
}

/// One-time generation by the reference tree. Every fixture is verified by the oracles before it is
/// written.
pub fn generate(_args: &Args) {
    std::fs::create_dir_all(fixtures_dir()).unwrap();
    for m in ALL_METRICS {
        let f = with_metric!(m, D, gen_for::<D>(m));
        let mut c = Counters::default();
        let mut sigs = BTreeSet::new();
        with_metric!(m, D, check_fixture::<D>(&f, &mut c, &mut sigs)).expect("freshly generated fixture must satisfy the oracles");
        let path = fixtures_dir().join(format!("{}.fix", m.short()));
        std::fs::write(&path, write_fixture(&f)).unwrap();
        println!("wrote {} ({} entries)", path.display(), f.kv.len());
    }
}

fn check_fixture<D: Distance>(f: &Fixture, c: &mut Counters, sigs: &mut BTreeSet<u64>) -> Result<(), String> {
    let metric = f.metric;
    let world = World::new(64 << 20, false);
    {
        let mut wtxn = world.env.write_txn().unwrap();
        for (k, v) in &f.kv {
            world.db.put(&mut wtxn, k, v).unwrap();
        }
        wtxn.commit().unwrap();
    }
    c.add("fixture_entries_loaded", f.kv.len() as u64);
    let decl = |i: u16| f.indexes.iter().find(|x| x.index == i).map(|_| (metric, DIMS));
    {
        let rtxn = world.env.read_txn().unwrap();
        let d = rawdb::dump(&rtxn, world.db)?;
        if let Some(diff) = rawdb::first_diff(&f.kv, &d) {
            return Err(format!("fixture does not read back as loaded: {diff}"));
        }
        let dec = rawdb::decode(&d, &decl).map_err(|e| format!("the fixture itself does not decode under the reference layout: {e}"))?;
        for ix in &f.indexes {
            let mut m = IndexModel::new(ix.index, metric, DIMS);
            m.items = ix.items.clone();
            m.has_metadata = ix.built;
            m.dirty = ix.pending;
            let probe: Vec<u32> = m.items.keys().copied().collect();
            guarded(|| engine::check_store::<D>(&rtxn, world.db, &m, &probe, true, c))
                .unwrap_or_else(|p| Err(format!("panic: {p}")))
                .map_err(|e| format!("{} fixture, index {}: {e}", metric.short(), ix.index))?;
            let (k, desc) = guarded(|| engine::open_kind::<D>(&rtxn, world.db, ix.index)).map_err(|p| format!("{} fixture, index {}: Reader::open panicked: {p}", metric.short(), ix.index))?;
            let want = if ix.pending { engine::OpenKind::NeedBuild } else { engine::OpenKind::Ok };
            if k != want {
                return Err(format!("{} fixture, index {}: Reader::open -> {desc}, expected {want:?}", metric.short(), ix.index));
            }
            c.inc("fixture_indexes_opened");
            sigs.insert(hash_str(&format!("{}|{}|{want:?}", metric.short(), ix.index)));
            if !ix.pending {
                forest::check_forest(&dec[&ix.index], DIMS, metric.disk_name()).map_err(|e| format!("{} fixture, index {}: {e}", metric.short(), ix.index))?;
                let r = guarded(|| Reader::<D>::open(&rtxn, ix.index, adb::<D>(world.db)).and_then(|r| r.assert_validity(&rtxn)));
                if !matches!(r, Ok(Ok(()))) {
                    return Err(format!("{} fixture, index {}: upstream validity walker: {r:?}", metric.short(), ix.index));
                }
                c.inc("fixture_forests_walked");
                let reader = Reader::<D>::open(&rtxn, ix.index, adb::<D>(world.db)).map_err(|e| format!("{e:?}"))?;
                for (count, sk, q, want) in &ix.queries {
                    let got = guarded(|| {
                        let mut qb = reader.nns(*count);
                        if *sk != 0 {
                            qb.search_k(NonZeroUsize::new(*sk).unwrap());
                        }
                        qb.by_vector(&rtxn, q)
                    })
                    .map_err(|p| format!("recorded query panicked: {p}"))?
                    .map_err(|e| format!("recorded query failed: {e:?}"))?;
                    if got.len() != want.len() {
                        return Err(format!("{} fixture, index {}: recorded query returns {} results, the reference returned {}", metric.short(), ix.index, got.len(), want.len()));
                    }
                    for (k, ((gi, gd), (wi, wd))) in got.iter().zip(want).enumerate() {
                        let close = (gd - wd).abs() <= 1e-6 * wd.abs().max(1.0);
                        if !close {
                            return Err(format!("{} fixture, index {}: recorded query rank {k}: distance {gd:e}, the reference reported {wd:e}", metric.short(), ix.index));
                        }
                        if gi != wi {
                            // only acceptable when it is a tie in the reference
                            let tie = want.iter().any(|(i2, d2)| i2 == gi && (d2 - wd).abs() <= 1e-6 * wd.abs().max(1.0));
                            if !tie {
                                return Err(format!("{} fixture, index {}: recorded query rank {k}: neighbour {gi}, the reference returned {wi}", metric.short(), ix.index));
                            }
                        }
                    }
                    if *sk == usize::MAX {
                        let spec = TopkSpec { metric, query: q, stored: &ix.items, filter: None, count: *count, exact: true, accuracy: true };
                        oracle::check_topk(&spec, &got).map_err(|e| format!("{} fixture, index {}: {e}", metric.short(), ix.index))?;
                    }
                    c.inc("fixture_queries_replayed");
                }
            }
        }
    }
    // the old database can be updated and rebuilt incrementally
    let mut wtxn = world.env.write_txn().unwrap();
    for ix in &f.indexes {
        let w = Writer::<D>::new(adb::<D>(world.db), ix.index, DIMS);
        let mut m = IndexModel::new(ix.index, metric, DIMS);
        m.items = ix.items.clone();
        let first = *m.items.keys().next().unwrap();
        guarded(|| w.del_item(&mut wtxn, first)).map_err(|p| format!("del on the fixture panicked: {p}"))?.map_err(|e| format!("{e:?}"))?;
        m.items.remove(&first);
        for id in [500u32, 501, 502] {
            let v: Vec<f32> = (0..DIMS).map(|k| (id as f32 - 500.0) + k as f32 * 0.25).collect();
            guarded(|| w.add_item(&mut wtxn, id, &v)).map_err(|p| format!("add on the fixture panicked: {p}"))?.map_err(|e| format!("{e:?}"))?;
            m.items.insert(id, v);
        }
        let mut r = StdRng::seed_from_u64(77);
        let res = guarded(|| w.builder(&mut r).n_trees(3).split_after(3).build(&mut wtxn));
        match res {
            Ok(Ok(())) => {}
            other => return Err(format!("{} fixture, index {}: incremental rebuild of the old database failed: {other:?}", metric.short(), ix.index)),
        }
        let d = rawdb::dump(&wtxn, world.db)?;
        let dec = rawdb::decode(&d, &decl).map_err(|e| format!("after updating the fixture: {e}"))?;
        forest::check_forest(&dec[&ix.index], DIMS, metric.disk_name()).map_err(|e| format!("{} fixture, index {} after an incremental update: {e}", metric.short(), ix.index))?;
        m.has_metadata = true;
        let mut qrng = StdRng::seed_from_u64(5);
        engine::check_exact::<D>(&wtxn, world.db, &m, &mut qrng, 2, true, c).map_err(|e| format!("{} fixture, index {} after an incremental update: {e}", metric.short(), ix.index))?;
        c.inc("fixture_incremental_rebuilds");
    }
    wtxn.commit().map_err(|e| format!("{e:?}"))?;
    Ok(())
}

/// Large id sets: metadata item sets and buckets big enough for roaring's bitmap containers
/// (> 4096 ids in one 65536-block) and ids spread over several blocks must still follow the layout.
fn check_big_sets<D: Distance>(metric: Metric, rng: &mut StdRng, c: &mut Counters) -> Result<(), String> {
    let world = World::new(256 << 20, false);
    let dims = 2usize;
    let index: u16 = [0u16, 300, 65535][rng.gen_range(0..3)];
    let mut wtxn = world.env.write_txn().unwrap();
    let w = Writer::<D>::new(adb::<D>(world.db), index, dims);
    let mut m = IndexModel::new(index, metric, dims);
    let mut ids: Vec<u32> = (0..9500u32).collect(); // one dense block: even half of it is > 4096
    ids.extend((0..300u32).map(|k| 65536 * 3 + k * 7)); // a sparse block
    ids.extend((0..40u32).map(|k| u32::MAX - k * 1000)); // the top of the range
    for id in ids {
        let v = vec![rng.gen_range(-1.0f32..1.0), rng.gen_range(-1.0f32..1.0)];
        w.add_item(&mut wtxn, id, &v).map_err(|e| format!("{e:?}"))?;
        m.items.insert(id, v);
    }
    let mut r = StdRng::seed_from_u64(3);
    // a big capacity: buckets of several thousand ids
    w.builder(&mut r).n_trees(2).split_after(6000).build(&mut wtxn).map_err(|e| format!("big-set build: {e:?}"))?;
    let d = rawdb::dump(&wtxn, world.db)?;
    let decl = |i: u16| if i == index { Some((metric, dims)) } else { None };
    let dec = rawdb::decode(&d, &decl).map_err(|e| format!("{} big sets: {e}", metric.short()))?;
    let ix = dec.get(&index).ok_or("index vanished")?;
    let st = forest::check_forest(ix, dims, metric.disk_name()).map_err(|e| format!("{} big sets: {e}", metric.short()))?;
    if st.max_bucket <= 4096 {
        return Err(format!("INCONCLUSIVE big-set case did not produce a bucket above 4096 ids (max {})", st.max_bucket));
    }
    m.has_metadata = true;
    let probe: Vec<u32> = m.items.keys().copied().step_by(97).collect();
    engine::check_store::<D>(&wtxn, world.db, &m, &probe, true, c).map_err(|e| format!("{} big sets: {e}", metric.short()))?;
    let mut qrng = StdRng::seed_from_u64(9);
    engine::check_exact::<D>(&wtxn, world.db, &m, &mut qrng, 2, true, c).map_err(|e| format!("{} big sets: {e}", metric.short()))?;
    c.inc("big_set_cases");
    c.max("max_bucket_decoded", st.max_bucket);
    Ok(())
}

/// A dimension above 65535: every byte of the 4-byte dimension field matters.
fn check_huge_dimension<D: Distance>(metric: Metric, rng: &mut StdRng, c: &mut Counters) -> Result<(), String> {
    let world = World::new(512 << 20, false);
    let dims = 65_541usize;
    let index = 0x0102u16;
    let mut wtxn = world.env.write_txn().unwrap();
    let w = Writer::<D>::new(adb::<D>(world.db), index, dims);
    let mut m = IndexModel::new(index, metric, dims);
    for id in [0u32, 7, u32::MAX] {
        let v: Vec<f32> = (0..dims).map(|_| rng.gen_range(-1.0f32..1.0)).collect();
        w.add_item(&mut wtxn, id, &v).map_err(|e| format!("{e:?}"))?;
        m.items.insert(id, v);
    }
    let mut r = StdRng::seed_from_u64(3);
    w.builder(&mut r).n_trees(1).split_after(2).build(&mut wtxn).map_err(|e| format!("huge-dimension build: {e:?}"))?;
    let d = rawdb::dump(&wtxn, world.db)?;
    let decl = |i: u16| if i == index { Some((metric, dims)) } else { None };
    let dec = rawdb::decode(&d, &decl).map_err(|e| format!("{} {dims}d: {e}", metric.short()))?;
    let ix = dec.get(&index).ok_or("index vanished")?;
    forest::check_forest(ix, dims, metric.disk_name()).map_err(|e| format!("{} {dims}d: {e}", metric.short()))?;
    m.has_metadata = true;
    let probe: Vec<u32> = m.items.keys().copied().collect();
    engine::check_store::<D>(&wtxn, world.db, &m, &probe, true, c).map_err(|e| format!("{} {dims}d: {e}", metric.short()))?;
    let mut qrng = StdRng::seed_from_u64(9);
    engine::check_exact::<D>(&wtxn, world.db, &m, &mut qrng, 1, true, c).map_err(|e| format!("{} {dims}d: {e}", metric.short()))?;
    c.inc("huge_dimension_cases");
    Ok(())
}

/// keys written through the public API have the reference encoding and sort as (index, kind, id)
fn check_key_lattice<D: Distance>(metric: Metric, rng: &mut StdRng, c: &mut Counters) -> Result<(), String> {
    let world = World::new(64 << 20, false);
    let mut indexes: Vec<u16> = vec![0, 1, 255, 256, 65535];
    indexes.push(rng.gen());
    indexes.sort_unstable();
    indexes.dedup();
    let mut ids: Vec<u32> = vec![0, 1, 255, 256, 1 << 16, 1 << 24, 1 << 31, u32::MAX];
    ids.push(rng.gen());
    ids.push(rng.gen());
    ids.sort_unstable();
    ids.dedup();
    let dims = 2usize;
    let mut wtxn = world.env.write_txn().unwrap();
    let mut expect: BTreeSet<Vec<u8>> = BTreeSet::new();
    // write in a scrambled order
    let mut order: Vec<(u16, u32)> = indexes.iter().flat_map(|i| ids.iter().map(move |d| (*i, *d))).collect();
    for k in (1..order.len()).rev() {
        order.swap(k, rng.gen_range(0..=k));
    }
    for (index, id) in &order {
        let w = Writer::<D>::new(adb::<D>(world.db), *index, dims);
        w.add_item(&mut wtxn, *id, &[rng.gen_range(-1.0f32..1.0), rng.gen_range(-1.0f32..1.0)]).map_err(|e| format!("{e:?}"))?;
        expect.insert(rawdb::encode_key(*index, KIND_ITEM, *id).to_vec());
        expect.insert(rawdb::encode_key(*index, KIND_UPDATED, *id).to_vec());
    }
    let d = rawdb::dump(&wtxn, world.db)?;
    let got: BTreeSet<Vec<u8>> = d.iter().map(|(k, _)| k.clone()).collect();
    if got != expect {
        let missing: Vec<String> = expect.difference(&got).take(3).map(|k| hex(k)).collect();
        let extra: Vec<String> = got.difference(&expect).take(3).map(|k| hex(k)).collect();
        return Err(format!("{}: keys written by add_item differ from the reference encoding (index BE, kind, id BE, 0): missing {missing:?}, unexpected {extra:?}", metric.short()));
    }
    // LMDB order == (index, kind, id) order, kinds ordered metadata < updated < tree < item
    let decl = |_i: u16| Some((metric, dims));
    rawdb::decode(&d, &decl).map_err(|e| format!("{}: {e}", metric.short()))?;
    c.add("lattice_keys_checked", d.len() as u64);
    // build every index: metadata (kind 0) and tree keys (kind 2) appear, updated marks vanish
    for index in &indexes {
        let w = Writer::<D>::new(adb::<D>(world.db), *index, dims);
        let mut r = StdRng::seed_from_u64(1);
        w.builder(&mut r).n_trees(2).split_after(2).build(&mut wtxn).map_err(|e| format!("{e:?}"))?;
    }
    let d = rawdb::dump(&wtxn, world.db)?;
    let dec = rawdb::decode(&d, &decl).map_err(|e| format!("{} after build: {e}", metric.short()))?;
    let mut last: Option<(u16, u8, u32)> = None;
    for (k, _) in &d {
        let key = rawdb::parse_key(k)?;
        let t = (key.index, key.kind, key.id);
        if let Some(l) = last {
            if l >= t {
                return Err(format!("byte order of the keys is not (index, kind, id) order: {l:?} before {t:?}"));
            }
        }
        last = Some(t);
    }
    for index in &indexes {
        let ix = dec.get(index).ok_or("index vanished")?;
        if ix.metadata.is_none() || ix.trees.is_empty() || !ix.updated.is_empty() || ix.items.len() != ids.len() {
            return Err(format!("{} index {index}: after build expected metadata, tree nodes, no updated marks and {} items", metric.short(), ids.len()));
        }
        let has = |kind: u8, id: u32| d.iter().any(|(k, _)| k[..] == rawdb::encode_key(*index, kind, id)[..]);
        if !has(KIND_METADATA, 0) || !ix.trees.keys().all(|t| has(KIND_TREE, *t)) {
            return Err(format!("{} index {index}: metadata / tree keys do not have the reference encoding", metric.short()));
        }
        forest::check_forest(ix, dims, metric.disk_name()).map_err(|e| format!("{} index {index}: {e}", metric.short()))?;
    }
    c.add("lattice_keys_checked", d.len() as u64);
    c.inc("key_lattices");
    Ok(())
}

pub fn run(args: &Args) {
    let seed = args.get_u64("seed", 0);
    let shard = args.get_u64("shard", 0);
    let nshards = args.get_u64("nshards", 1);
    let thorough = args.get("tier") == Some("thorough");
    let lattice_rounds = args.get_u64("lattices", if thorough { 400 } else { 40 });
    let replay = args.kv.get("replay").map(|s| crate::parse_u64(s));
    engine::install_quiet_panic_hook();
    let mut c = Counters::default();
    let mut sigs: BTreeSet<u64> = BTreeSet::new();
    let mut samples = Vec::new();
    let t0 = std::time::Instant::now();
    let mut cases: Vec<(u8, u64)> = Vec::new();
    for (i, _) in ALL_METRICS.iter().enumerate() {
        cases.push((0, i as u64));
    }
    for r in 0..lattice_rounds {
        for (i, _) in ALL_METRICS.iter().enumerate() {
            cases.push((1, r << 8 | i as u64));
        }
    }
    for (i, _) in ALL_METRICS.iter().enumerate() {
        cases.push((2, i as u64));
    }
    // dimension 65541 under one f32 metric and one quantised metric
    cases.push((3, Metric::Euclidean.idx() as u64));
    cases.push((3, Metric::BqEuclidean.idx() as u64));
    for (ci, (kind, param)) in cases.iter().enumerate() {
        if ci as u64 % nshards != shard {
            continue;
        }
        let cs = case_seed(seed, "C16", (*kind as u64) << 40 | param);
        if replay.map_or(false, |r| r != cs) {
            continue;
        }
        line(&format!("BEGIN {cs:#x}"));
        let metric = ALL_METRICS[(*param & 0xff) as usize];
        let res: Result<(), String> = guarded(|| {
            if *kind == 0 {
                let path = fixtures_dir().join(format!("{}.fix", metric.short()));
                let text = std::fs::read_to_string(&path).map_err(|e| format!("INCONCLUSIVE cannot read fixture {}: {e}", path.display()))?;
                let f = read_fixture(&text).map_err(|e| format!("INCONCLUSIVE {e}"))?;
                if samples.len() < 2 {
                    samples.push(J::obj().set("fixture", J::s(path.display().to_string())).set("entries", J::i(f.kv.len() as u64)).set("indexes", J::s("7 (deep forest, ids at the u32 edges, one incremental round), 8 (pending updates), 65535 (single bucket)")));
                }
                with_metric!(metric, D, check_fixture::<D>(&f, &mut c, &mut sigs))
            } else if *kind == 3 {
                let mut rng = StdRng::seed_from_u64(cs);
                sigs.insert(hash_str(&format!("hugedim|{}", metric.short())));
                with_metric!(metric, D, check_huge_dimension::<D>(metric, &mut rng, &mut c))
            } else if *kind == 2 {
                let mut rng = StdRng::seed_from_u64(cs);
                sigs.insert(hash_str(&format!("bigsets|{}", metric.short())));
                with_metric!(metric, D, check_big_sets::<D>(metric, &mut rng, &mut c))
            } else {
                let mut rng = StdRng::seed_from_u64(cs);
                sigs.insert(hash_str(&format!("lattice|{}|{}", metric.short(), param >> 8)));
                with_metric!(metric, D, check_key_lattice::<D>(metric, &mut rng, &mut c))
            }
        })
        .unwrap_or_else(|p| Err(format!("panic while reading the reference database: {p}")));
        c.inc("cases");
        match res {
            Ok(()) => line(&format!("END {cs:#x} ok")),
            Err(msg) if msg.starts_with("INCONCLUSIVE") => {
                emit("INCONCLUSIVE", &J::obj().set("property", J::s("C16")).set("case_seed", J::s(format!("{cs:#x}"))).set("msg", J::s(msg)));
                line(&format!("END {cs:#x} inconclusive"));
            }
            Err(msg) => {
                c.inc("violations");
                emit("VIOL", &J::obj().set("property", J::s("C16")).set("case_seed", J::s(format!("{cs:#x}"))).set("key", J::s(["format:fixture", "format:keys", "format:big-sets", "format:huge-dimension"][*kind as usize])).set("step", J::i(*param)).set("msg", J::s(msg)));
                line(&format!("END {cs:#x} violation"));
            }
        }
    }
    if samples.is_empty() {
        samples.push(J::obj().set("note", J::s("key lattice: indexes {0,1,255,256,65535,random} x ids {0,1,255,256,2^16,2^24,2^31,u32::MAX,random,random}")));
    }
    let j = J::obj()
        .set("property", J::s("C16"))
        .set("counters", c.to_json())
        .set("sigs", J::Arr(sigs.iter().map(|s| J::s(format!("{s:x}"))).collect()))
        .set("samples", J::Arr(samples))
        .set("rule", J::s("forward: 7 committed golden fixtures (one per metric; raw key/value bytes + expected items + recorded queries, generated once by the reference tree and verified by the oracles at generation) loaded through raw puts, then public API read-back, Reader::open outcome, C01 walker, recorded queries (neighbours and distances within 1e-6), incremental update + rebuild; backward: keys written through the public API over the lattice index {0,1,255,256,65535,random} x id {0,1,255,256,2^16,2^24,2^31,u32::MAX,random} compared with the reference encoding and LMDB order; per metric one index of 9 840 items (a dense 65536-block above 4096 ids, a sparse block, the top of the id range) with buckets of thousands of ids, so that roaring's bitmap containers appear in buckets and in the metadata; two indexes of dimension 65 541 (all four bytes of the dimension field matter); non-trivial+distinct = distinct (metric, index, outcome) fixture situations and (metric, round) lattices"))
        .set("required", J::Arr(["fixture_queries_replayed", "fixture_forests_walked", "fixture_incremental_rebuilds", "fixture_indexes_opened", "key_lattices", "lattice_keys_checked", "big_set_cases", "huge_dimension_cases"].iter().map(|s| J::s(*s)).collect()))
        .set("wall_s", J::Num(t0.elapsed().as_secs_f64()));
    emit("SUMMARY", &j);
}
