//! C17 — upgrading an old database preserves its whole content.
//!
//! Cosine databases produced by explorer histories are inverted byte-wise into the v0.4 layout
//! by the harness, loaded into a fresh environment, upgraded (into a second environment and in
//! place) and compared key for key with the current-layout original.

use std::collections::{BTreeMap, BTreeSet};

use arroy::distances::Cosine;
use arroy::Reader;
use heed::types::Bytes;
use roaring::RoaringBitmap;

use crate::engine::{self, adb, guarded, Checks, Model, Profile, Values, World};
use crate::forest;
use crate::metric::Metric;
use crate::rawdb::{self, Dump, RawDb, KIND_ITEM, KIND_METADATA, KIND_TREE, KIND_UPDATED};
use crate::util::{case_seed, hash_str, Counters, J};
use crate::{emit, line, Args};

const OLD_ITEM: u8 = 0;
const OLD_TREE: u8 = 1;
const OLD_METADATA: u8 = 2;

/// current layout -> v0.4 layout (the inverse of what the upgrade is specified to do)
pub fn to_v04(d: &Dump) -> Result<Dump, String> {
    let mut out: BTreeMap<Vec<u8>, Vec<u8>> = BTreeMap::new();
    let mut pending: BTreeMap<u16, RoaringBitmap> = BTreeMap::new();
    for (k, v) in d {
        let key = rawdb::parse_key(k)?;
        match key.kind {
            KIND_ITEM => {
                out.insert(rawdb::encode_key(key.index, OLD_ITEM, key.id).to_vec(), v.clone());
            }
            KIND_TREE => {
                let mut v = v.clone();
                if v.first() == Some(&2) {
                    for off in [1usize, 6] {
                        v[off] = match v[off] {
                            KIND_TREE => OLD_TREE,
                            KIND_ITEM => OLD_ITEM,
                            other => return Err(format!("split child of kind {other}")),
                        };
                    }
                }
                out.insert(rawdb::encode_key(key.index, OLD_TREE, key.id).to_vec(), v);
            }
            KIND_METADATA => {
                if key.id == 0 {
                    let mut m = rawdb::decode_metadata(v)?;
                    if m.name != "cosine" {
                        return Err(format!("not a cosine index: {}", m.name));
                    }
                    m.name = "angular".to_string();
                    out.insert(rawdb::encode_key(key.index, OLD_METADATA, 0).to_vec(), rawdb::encode_metadata(&m));
                }
                // version records did not exist
            }
            KIND_UPDATED => {
                pending.entry(key.index).or_default().insert(key.id);
            }
            _ => unreachable!(),
        }
    }
    for (index, bm) in pending {
        let mut bytes = Vec::new();
        bm.serialize_into(&mut bytes).unwrap();
        out.insert(rawdb::encode_key(index, OLD_METADATA, 1).to_vec(), bytes);
    }
    Ok(out.into_iter().collect())
}

fn load(world: &World, d: &Dump) {
    let mut wtxn = world.env.write_txn().unwrap();
    let db: heed::Database<Bytes, Bytes> = world.db;
    for (k, v) in d {
        db.put(&mut wtxn, k, v).unwrap();
    }
    wtxn.commit().unwrap();
}

fn without_versions(d: &Dump) -> Dump {
    d.iter().filter(|(k, _)| !(k.len() == 8 && k[2] == KIND_METADATA && k[3..7] == [0, 0, 0, 1])).cloned().collect()
}

fn dump_of(world: &World) -> Dump {
    let rtxn = world.env.read_txn().unwrap();
    rawdb::dump(&rtxn, world.db).unwrap()
}

fn check_upgraded(world: &World, db: RawDb, model: &Model, original: &Dump, how: &str, c: &mut Counters, sigs: &mut BTreeSet<u64>) -> Result<(), String> {
    let got = dump_of(world);
    let want = without_versions(original);
    if let Some(d) = rawdb::first_diff(&want, &got) {
        return Err(format!("{how}: the upgraded database differs from the current-layout original: {d}"));
    }
    c.inc("upgrade_dumps_equal");
    c.add("upgrade_entries_compared", want.len() as u64);
    let rtxn = world.env.read_txn().unwrap();
    let decoded = rawdb::decode(&got, &model.decl()).map_err(|e| format!("{how}: upgraded database does not decode: {e}"))?;
    for m in &model.ix {
        let Some(ix) = decoded.get(&m.index) else { continue };
        let (k, desc) = engine::open_kind::<Cosine>(&rtxn, db, m.index);
        let pending = !ix.updated.is_empty();
        let want = if ix.metadata.is_none() {
            engine::OpenKind::MissingMetadata
        } else if pending {
            engine::OpenKind::NeedBuild
        } else {
            engine::OpenKind::Ok
        };
        if k != want {
            return Err(format!("{how}: index {} opens with {desc}, expected {want:?} (pending updates: {pending})", m.index));
        }
        c.inc(&format!("upgrade_open_{want:?}"));
        sigs.insert(hash_str(&format!("{want:?}|{}|{}", ix.trees.len().min(3), ix.items.len().min(3))));
        if k == engine::OpenKind::Ok {
            forest::check_forest(ix, m.dims, "cosine").map_err(|e| format!("{how}: index {}: {e}", m.index))?;
            let r = guarded(|| Reader::<Cosine>::open(&rtxn, m.index, adb::<Cosine>(db)).and_then(|r| r.assert_validity(&rtxn)));
            if !matches!(r, Ok(Ok(()))) {
                return Err(format!("{how}: index {}: upstream validity walker: {r:?}", m.index));
            }
            let mut qrng = rand::SeedableRng::seed_from_u64(3);
            engine::check_exact::<Cosine>(&rtxn, db, m, &mut qrng, 2, true, c).map_err(|e| format!("{how}: index {}: {e}", m.index))?;
            c.inc("upgrade_forests_walked");
        }
    }
    Ok(())
}

fn run_one(cs: u64, c: &mut Counters, sigs: &mut BTreeSet<u64>) -> Result<Option<J>, String> {
    // 1. a current-layout cosine database from an explorer history
    let mut p = Profile::base();
    p.checks = Checks { accuracy: true, ..Default::default() };
    p.metrics = vec![Metric::Cosine];
    p.n_indexes = (1, 3);
    p.dims = vec![2, 3, 8, 16, 33];
    p.rounds = (1, 4);
    p.max_items = 80;
    p.ops_per_round = (1, 50);
    p.values = vec![Values::Uniform, Values::Grid];
    p.memory = vec![None];
    p.p_abort = 0.0;
    p.split_after = vec![None, Some(1), Some(2), Some(3), Some(7), Some(20)];
    let mut case = engine::gen_case(cs, &p);
    // leave pending updates behind in about half of the cases: drop the builds of the last round
    let drop_last_builds = cs % 2 == 0;
    if drop_last_builds {
        let n = case.ops.len();
        // first operation of the last round = just after the previous commit/abort
        let mut start = 0;
        for i in (0..n.saturating_sub(1)).rev() {
            if matches!(case.ops[i], engine::Op::Commit | engine::Op::Abort) {
                start = i + 1;
                break;
            }
        }
        case.ops = case.ops.iter().enumerate().filter(|(i, op)| !(*i >= start && matches!(op, engine::Op::Build { .. }))).map(|(_, op)| op.clone()).collect();
    }
    let a = World::new(256 << 20, false);
    let (rep, model) = engine::run_case_in(&a, &case, &p);
    match rep.end {
        engine::CaseEnd::Done => {}
        other => {
            c.inc("source_history_truncated");
            return Err(format!("INCONCLUSIVE source history did not complete: {other:?}"));
        }
    }
    // one case in 16 upgrades a database that holds nothing at all
    let original = if cs % 16 == 5 { Dump::new() } else { dump_of(&a) };
    // what an earlier use of the destination left there: the upgrade prescribes the whole content
    let leftovers: Dump = if cs % 4 != 0 {
        let mut l: Dump = dump_of(&a);
        for id in 0..3u32 {
            l.push((rawdb::encode_key(0x7777, rawdb::KIND_ITEM, id).to_vec(), vec![0u8; 13]));
        }
        l.sort();
        l.dedup_by(|x, y| x.0 == y.0);
        l
    } else {
        Dump::new()
    };
    if original.is_empty() {
        c.inc("source_empty");
        let b = World::new(64 << 20, false);
        for in_place in [false, true] {
            let cc = World::new(64 << 20, false);
            let dst = if in_place { &b } else { &cc };
            if !in_place {
                load(dst, &leftovers);
            }
            let rtxn = b.env.read_txn().unwrap();
            let mut wtxn = dst.env.write_txn().unwrap();
            let r = guarded(|| arroy::upgrade::cosine_from_0_4_to_0_5(&rtxn, adb::<Cosine>(b.db), &mut wtxn, adb::<Cosine>(dst.db)));
            match r {
                Ok(Ok(())) => {}
                other => return Err(format!("cosine_from_0_4_to_0_5 of an empty database failed: {other:?}")),
            }
            drop(rtxn);
            wtxn.commit().unwrap();
            let got = dump_of(dst);
            if let Some((k, _)) = got.first() {
                return Err(format!(
                    "0.4->0.5 of an empty database {}: the upgraded database holds {} entries (e.g. key {}), the current layout prescribes none",
                    if in_place { "in place" } else { "into a second environment that had been used before" },
                    got.len(),
                    k.iter().map(|b| format!("{b:02x}")).collect::<String>()
                ));
            }
            c.inc("empty_sources_upgraded");
        }
        return Ok(None);
    }
    // 2. invert into the v0.4 layout and load
    let old = to_v04(&original)?;
    let b = World::new(256 << 20, false);
    load(&b, &old);
    c.add("v04_entries_loaded", old.len() as u64);
    if old.iter().any(|(k, _)| k[2] == OLD_METADATA && k[3..7] == [0, 0, 0, 1]) {
        c.inc("sources_with_pending_updates");
    }
    if old.iter().any(|(k, v)| k[2] == OLD_TREE && v.first() == Some(&2) && (v[1] == OLD_ITEM || v[6] == OLD_ITEM)) {
        c.inc("sources_with_item_children");
    }
    // 3a. upgrade into a second environment
    let cc = World::new(256 << 20, false);
    if !leftovers.is_empty() {
        load(&cc, &leftovers);
        c.inc("destinations_used_before");
    }
    {
        let rtxn = b.env.read_txn().unwrap();
        let mut wtxn = cc.env.write_txn().unwrap();
        let r = guarded(|| arroy::upgrade::cosine_from_0_4_to_0_5(&rtxn, adb::<Cosine>(b.db), &mut wtxn, adb::<Cosine>(cc.db)));
        match r {
            Ok(Ok(())) => {}
            other => return Err(format!("cosine_from_0_4_to_0_5 (separate environments) failed: {other:?}")),
        }
        wtxn.commit().unwrap();
    }
    check_upgraded(&cc, cc.db, &model, &original, "0.4->0.5 into a second environment", c, sigs)?;
    // 3b. in place
    {
        let rtxn = b.env.read_txn().unwrap();
        let mut wtxn = b.env.write_txn().unwrap();
        let r = guarded(|| arroy::upgrade::cosine_from_0_4_to_0_5(&rtxn, adb::<Cosine>(b.db), &mut wtxn, adb::<Cosine>(b.db)));
        match r {
            Ok(Ok(())) => {}
            other => return Err(format!("cosine_from_0_4_to_0_5 (in place) failed: {other:?}")),
        }
        drop(rtxn);
        wtxn.commit().unwrap();
    }
    check_upgraded(&b, b.db, &model, &original, "0.4->0.5 in place", c, sigs)?;
    // 4. 0.5 -> 0.6: exactly one version record per index that has metadata, nothing else
    let before = dump_of(&cc);
    {
        let rtxn = cc.env.read_txn().unwrap();
        let mut wtxn = cc.env.write_txn().unwrap();
        let r = guarded(|| arroy::upgrade::from_0_5_to_0_6::<Cosine>(&rtxn, adb::<Cosine>(cc.db), &mut wtxn, adb::<Cosine>(cc.db)));
        match r {
            Ok(Ok(())) => {}
            other => return Err(format!("from_0_5_to_0_6 failed: {other:?}")),
        }
        drop(rtxn);
        wtxn.commit().unwrap();
    }
    let after = dump_of(&cc);
    let mut want: BTreeMap<Vec<u8>, Vec<u8>> = before.iter().cloned().collect();
    let mut n_versions = 0;
    for (k, _) in &before {
        if k[2] == KIND_METADATA && k[3..7] == [0, 0, 0, 0] {
            let index = u16::from_be_bytes([k[0], k[1]]);
            let mut v = Vec::new();
            for x in [0u32, 6, 1] {
                v.extend_from_slice(&x.to_be_bytes());
            }
            want.insert(rawdb::encode_key(index, KIND_METADATA, 1).to_vec(), v);
            n_versions += 1;
        }
    }
    let want: Dump = want.into_iter().collect();
    if let Some(d) = rawdb::first_diff(&want, &after) {
        return Err(format!("0.5->0.6: expected exactly one version record (0.6.1) per index with metadata and nothing else changed, but {d}"));
    }
    c.add("version_records_expected_and_found", n_versions);
    c.inc("upgrades_checked");
    let sample = J::obj()
        .set("case_seed", J::s(format!("{cs:#x}")))
        .set("indexes", J::Arr(model.ix.iter().map(|m| J::s(format!("index {} cosine {}d, {} items", m.index, m.dims, m.items.len()))).collect()))
        .set("v04_entries", J::i(old.len() as u64))
        .set("pending_updates_left", J::Bool(drop_last_builds));
    Ok(Some(sample))
}

pub fn run(args: &Args) {
    let seed = args.get_u64("seed", 0);
    let shard = args.get_u64("shard", 0);
    let nshards = args.get_u64("nshards", 1);
    let thorough = args.get("tier") == Some("thorough");
    let cases = args.get_u64("cases", if thorough { 200000 } else { 16000 });
    let replay = args.kv.get("replay").map(|s| crate::parse_u64(s));
    engine::install_quiet_panic_hook();
    let mut c = Counters::default();
    let mut sigs: BTreeSet<u64> = BTreeSet::new();
    let mut samples = Vec::new();
    let t0 = std::time::Instant::now();
    for i in (0..cases).filter(|i| i % nshards == shard) {
        let cs = case_seed(seed, "C17", i);
        if replay.map_or(false, |r| r != cs) {
            continue;
        }
        line(&format!("BEGIN {cs:#x}"));
        let r = guarded(|| run_one(cs, &mut c, &mut sigs)).unwrap_or_else(|p| Err(format!("panic: {p}")));
        c.inc("cases");
        match r {
            Ok(s) => {
                if let Some(s) = s {
                    if samples.len() < 2 {
                        samples.push(s);
                    }
                }
                line(&format!("END {cs:#x} ok"));
            }
            Err(msg) if msg.starts_with("INCONCLUSIVE") => {
                emit("INCONCLUSIVE", &J::obj().set("property", J::s("C17")).set("case_seed", J::s(format!("{cs:#x}"))).set("msg", J::s(msg)));
                line(&format!("END {cs:#x} inconclusive"));
            }
            Err(msg) => {
                c.inc("violations");
                emit("VIOL", &J::obj().set("property", J::s("C17")).set("case_seed", J::s(format!("{cs:#x}"))).set("key", J::s("upgrade")).set("step", J::i(0)).set("msg", J::s(msg)));
                line(&format!("END {cs:#x} violation"));
            }
        }
    }
    if samples.is_empty() {
        samples.push(J::obj().set("note", J::s("no non-empty source database in this shard")));
    }
    let j = J::obj()
        .set("property", J::s("C17"))
        .set("counters", c.to_json())
        .set("sigs", J::Arr(sigs.iter().map(|s| J::s(format!("{s:x}"))).collect()))
        .set("samples", J::Arr(samples))
        .set("rule", J::s("case = a cosine database produced by an explorer history (1-3 indexes, split_after 1..20, half of the cases with the last round's builds dropped so that updates are pending), inverted byte-wise into the v0.4 layout (key kinds, child kinds in splits, metric name, pending-updates bitmap, no version record), loaded through raw puts, upgraded into a second environment (three times out of four one that holds the leftovers of an earlier use) and in place, dumped and compared byte for byte with the original minus version records; then 0.5->0.6; one case in 16 upgrades a database that holds nothing (the result must hold nothing); non-trivial+distinct = distinct (open outcome, forest size class, item count class) situations"))
        .set("required", J::Arr(["upgrade_dumps_equal", "upgrades_checked", "sources_with_pending_updates", "sources_with_item_children", "upgrade_open_Ok", "upgrade_open_NeedBuild", "upgrade_forests_walked", "version_records_expected_and_found", "empty_sources_upgraded", "destinations_used_before"].iter().map(|s| J::s(*s)).collect()))
        .set("wall_s", J::Num(t0.elapsed().as_secs_f64()));
    emit("SUMMARY", &j);
}
