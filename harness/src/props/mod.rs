//! Per-property workloads. The history-quantified properties share the explorer (engine.rs) and
//! differ in the profile (what is generated) and in the monitors that are verdict-bearing.

pub mod c03;
pub mod c04;
pub mod c08;
pub mod c09;
pub mod c10;
pub mod c11;
pub mod c12;
pub mod c13;
pub mod c14;
pub mod c16;
pub mod c17;
pub mod c18;
pub mod degenerate;
pub mod selftest;

use crate::engine::{Checks, Profile, Values};
use crate::metric::Metric;

pub struct Plan {
    pub profile: Profile,
    /// number of cases for (quick, thorough)
    pub cases: (u64, u64),
    /// counters that must be > 0 for the run to count as having observed anything
    pub required: &'static [&'static str],
    pub rule: &'static str,
    pub custom_gen: Option<fn(u64, &Profile) -> crate::engine::Case>,
}

pub fn explorer_plan(prop: &str, thorough: bool) -> Option<Plan> {
    let mut p = Profile::base();
    let plan = match prop {
        "C01" => {
            p.checks = Checks { forest: true, decode: true, build_must_succeed: true, termination: true, accuracy: true, ..Default::default() };
            p.p_del_only_round = 0.08;
            p.rounds = (2, 6);
            p.p_bulk = 0.05;
            if thorough {
                // deeper bounds: larger live sets and bulk loads of up to 3000 items
                p.max_items = 1500;
                p.ops_per_round = (0, 300);
                p.bulk_max = 3000;
            }
            Plan {
                profile: p,
                cases: (6000, 120000),
                required: &["forests_checked", "tr_item_child_to_bucket", "tr_split_collapsed", "tr_bucket_resplit", "tr_trees_removed", "tr_trees_added", "builds_multithread"],
                custom_gen: None,
                rule: "case = seeded configuration (metric, dims, ids, values) + history ((add|overwrite|append|del|clear)* build)+; after every successful build the raw LMDB dump is decoded by the reference decoder and walked (C01 oracle); non-trivial+distinct = distinct forest shape hashes (split/bucket/item-child structure with depths and bucket sizes) among forests that contain at least one split",
            }
        }
        "C11" => {
            // end-to-end leg of C11: the distances a *search* reports, on indexes written through every write path
            // (add, append, overwrite) and all 7 metrics, against the f64 definition
            p.checks = Checks { exact: true, accuracy: true, ..Default::default() };
            p.values = vec![Values::Grid, Values::Uniform, Values::Uniform, Values::Mixed(false)];
            p.queries_per_build = 4;
            p.rounds = (1, 3);
            p.max_items = 120;
            p.ops_per_round = (1, 60);
            p.p_append = 0.25;
            p.dims.extend_from_slice(&[257, 300]);
            Plan {
                profile: p,
                cases: (2400, 40000),
                required: &["exact_queries", "builds_ok", "op_append"],
                custom_gen: None,
                rule: "end-to-end leg: explorer histories in which a quarter of the writes go through append_item; after every build 4 exhaustive queries (by_item and by_vector) whose reported distances are compared with the f64 definition over the shadow model",
            }
        }
        "C02" => {
            p.checks = Checks { exact: true, accuracy: true, ..Default::default() };
            // a fifth of the cases mix magnitudes from 1e-9 to 1e6 inside one index (a tiny item next to a large query)
            p.values = vec![Values::Grid, Values::Uniform, Values::Grid, Values::Uniform, Values::Mixed(false)];
            p.queries_per_build = 5;
            p.rounds = (1, 4);
            p.max_items = 300;
            p.p_bulk = 0.05;
            p.dims.extend_from_slice(&[257, 300]);
            Plan {
                profile: p,
                cases: (8000, 120000),
                required: &["exact_queries", "builds_ok"],
                custom_gen: None,
                rule: "case = explorer history; after every successful build 5 queries (by_vector: stored / perturbed / zero / random vector; by_item) with search_k=usize::MAX and count in {0,1,3,n-1,n,n+5,random} are compared with the f64 brute-force oracle over the shadow model; non-trivial+distinct = distinct forest shapes with at least one split on which queries ran",
            }
        }
        "C03" => {
            p.checks = Checks { lattice: true, accuracy: true, ..Default::default() };
            // mostly ordinary data (distance accuracy is checked), sometimes infinities / NaN / huge values:
            // the well-formedness clauses (order, count, filter, ids) hold for those too
            p.values = vec![Values::Grid, Values::Grid, Values::Uniform, Values::Uniform, Values::Uniform, Values::Degenerate(7), Values::Degenerate(5)];
            p.queries_per_build = 2;
            p.rounds = (1, 3);
            p.max_items = 150;
            p.ops_per_round = (0, 90);
            Plan {
                profile: p,
                cases: (6000, 90000),
                required: &["lattice_queries", "lattice_monotone_pairs", "lattice_by_item_eq_by_vector", "lattice_default_budget_compared", "lattice_huge_count_default_budget", "lattice_filter_partial", "lattice_filter_disjoint"],
                custom_gen: None,
                rule: "case = explorer history; on every built state a lattice of (count, search_k ladder, oversampling, candidates) queries runs on one read view; non-trivial+distinct = distinct forest shapes with at least one split on which the lattice ran",
            }
        }
        "C04" => {
            p.checks = Checks { routing: true, accuracy: true, ..Default::default() };
            // magnitudes matter: a margin that is tiny but not zero must still decide the side
            p.values = vec![Values::Uniform, Values::Uniform, Values::Grid, Values::Scaled(-9), Values::Scaled(-5), Values::Scaled(6), Values::Mixed(true), Values::Mixed(true), Values::Clustered, Values::Clustered];
            p.dims = vec![2, 3, 4, 5, 7, 8, 15, 16, 17, 31, 32, 33, 63, 64, 65, 100, 128, 130];
            p.split_after = vec![Some(1), Some(2), Some(3), Some(7), None];
            p.rounds = (3, 6);
            p.max_items = 200;
            p.ops_per_round = (5, 80);
            Plan {
                profile: p,
                cases: (6000, 90000),
                required: &["routing_margins_checked", "routing_margins_vs_definition", "routing_self_lookups", "routing_items_with_clean_tree"],
                custom_gen: None,
                rule: "case = explorer history with >=3 rounds and small buckets; after every build each (split, item below it) pair has its margin recomputed with arroy's own margin function on the stored bytes (in the reader's and in the writer's argument order) and, independently, from the definition in f64 on the raw bytes (when that leaves no doubt about the sign all three must agree with the side the item lies on); a fifth of the cases mix magnitudes from 1e-9 to 1e19 per vector, another fifth are a tight cluster far from the origin plus outliers (every split attempt unbalanced); self-lookups with search_k=1 for items that have a clean tree; non-trivial+distinct = distinct forest shapes with splits",
            }
        }
        "C05" => {
            p.checks = Checks { store: true, ..Default::default() };
            p.values = vec![Values::AllBits, Values::AllBits, Values::Grid];
            p.p_badlen = 0.03;
            // a few large dimensions too: leaves beyond one LMDB page (overflow pages), several quantised words
            p.dims.extend_from_slice(&[257, 1030]);
            p.p_variant_overwrite = 0.12;
            // the item store does not depend on the forest: also forests of zero trees (explicit n_trees(0))
            p.n_trees.push(Some(0));
            // a metric change re-encodes every stored leaf: what is read back afterwards is the new metric's
            // encoding of what the old one had stored
            p.change_metric = true;
            p.p_append = 0.08;
            p.p_clear = 0.02;
            p.p_midcommit = 0.05;
            p.n_indexes = (1, 3);
            p.max_items = 120;
            p.ops_per_round = (1, 60);
            p.memory = vec![None];
            Plan {
                profile: p,
                cases: (10000, 150000),
                required: &["store_probes", "store_full_iters", "store_reader_checks", "overwrites", "del_present", "del_absent", "aborts"],
                custom_gen: None,
                rule: "case = explorer history over 1-3 indexes with all-bit-pattern values; after every operation (in the write txn) and after every commit/abort (fresh read txn) contains_item/item_vector/iter/is_empty and the reader's id set are compared bit-for-bit with the shadow model (also across metric changes, which re-encode every leaf); non-trivial+distinct = distinct (operation kind, changed/unchanged effect, built?, dirty?, metric, log2 item count) situations in which the monitor ran, plus distinct forest shapes with splits of the interleaved builds",
            }
        }
        "C06" => {
            p.checks = Checks { staleness: true, ..Default::default() };
            p.n_indexes = (1, 3);
            p.max_items = 40;
            p.ops_per_round = (0, 12);
            p.rounds = (1, 6);
            p.p_midcommit = 0.15;
            p.p_cancelled_first_build = 0.25;
            p.p_badlen = 0.08;
            p.p_clear = 0.04;
            p.p_abort = 0.15;
            p.dims = vec![1, 2, 3, 8, 16, 33];
            p.memory = vec![None];
            p.threads = vec![1, 2];
            Plan {
                profile: p,
                cases: (40000, 600000),
                required: &["open_Ok", "open_NeedBuild", "open_MissingMetadata", "open_wrong_metric", "del_absent", "badlen_rejected", "aborts", "first_builds_cancelled"],
                custom_gen: None,
                rule: "case = short explorer history over 1-3 indexes; after every single operation (in-txn) and after every commit/abort (fresh read txn) Reader::open (right and wrong metric) and need_build are compared with the model's staleness; non-trivial+distinct = distinct (operation kind, changed/unchanged effect, built?, dirty?, metric, log2 item count) situations after which open/need_build were evaluated, plus distinct forest shapes with splits",
            }
        }
        "C07" => {
            p.checks = Checks { isolation: true, ..Default::default() };
            // hostile values too: code paths guarded by "is the norm finite?" style tests belong to the quantifier
            p.values = vec![Values::Grid, Values::Uniform, Values::AllBits, Values::Degenerate(5), Values::Degenerate(7), Values::Degenerate(2)];
            p.n_indexes = (2, 4);
            p.max_items = 60;
            p.ops_per_round = (1, 30);
            p.rounds = (1, 4);
            p.p_clear = 0.04;
            p.change_metric = true;
            p.memory = vec![None, Some(0)];
            Plan {
                profile: p,
                cases: (8000, 120000),
                required: &["isolation_dumps_compared", "isolation_foreign_entries", "op_clear", "op_change_metric", "builds_ok", "isolation_answers_compared"],
                custom_gen: None,
                rule: "case = explorer history over 2-4 indexes (adjacent numbers, 0/1/255/256/65534/65535, random; per-index metric; ids at the u32 edges); around every operation the raw dump restricted to the other indexes' prefixes is compared byte for byte, and one other searchable index is asked a fixed query under 8 limited budgets (around the database's entry count, and half its item count) before and after: ids and distance bits must not change; non-trivial+distinct = distinct (operation kind, effect, index state, metric, size class) situations plus distinct forest shapes with splits of the operated indexes",
            }
        }
        "C13" => {
            p.checks = Checks { forest: true, id_log: true, chaos: true, build_must_succeed: true, termination: true, accuracy: true, ..Default::default() };
            p.p_del_only_round = 0.08;
            p.threads = vec![2, 4, 8, 16];
            p.n_trees = vec![Some(5), Some(9), Some(20)];
            p.split_after = vec![Some(1), Some(2), Some(3)];
            p.rounds = (3, 7);
            p.ops_per_round = (4, 60);
            p.max_items = 150;
            p.memory = vec![None, None, Some(0)];
            p.keep_opts = 0.9;
            p.dims = vec![2, 3, 8, 16, 33];
            Plan {
                profile: p,
                cases: (1500, 30000),
                required: &["forests_checked", "idlog_ids_checked", "idlog_builds_with_concurrent_allocators", "chaos_points_hit", "tr_item_child_to_bucket"],
                custom_gen: None,
                rule: "case = explorer history with many trees (5-20), tiny buckets (split_after 1-3) and >=3 incremental rounds, built in local rayon pools of 2-16 threads with seeded scheduling noise at the hook points; the hook logs the ids in use when the generator is created and every id obtained (thread, call site); offline per build: ids unique and disjoint from the used set, then the C01 walker; non-trivial+distinct = distinct thread-order signatures of the id log among builds where >=2 threads allocated, plus distinct forest shapes",
            }
        }
        "C14" => {
            p.checks = Checks { forest: true, exact: true, termination: true, build_must_succeed: true, accuracy: true, ..Default::default() };
            p.memory = vec![Some(0), Some(4096), Some(3 * 4096), Some(40_000), Some(200_000), Some(1 << 20), Some(64 << 20), None];
            p.dims = vec![3, 16, 64, 130, 256];
            p.split_after = vec![None, None, Some(1), Some(20), Some(250)];
            p.max_items = if thorough { 3000 } else { 1000 };
            p.ops_per_round = (150, 520);
            p.rounds = (1, 3);
            p.p_delete = 0.2;
            p.sparse_ids = false;
            p.queries_per_build = 2;
            p.n_trees = vec![None, Some(1), Some(3), Some(5)];
            Plan {
                profile: p,
                cases: (600, 12000),
                required: &["builds_with_memory_hint", "forests_checked", "exact_queries", "c14_batch_fits_one_bucket", "c14_items_above_min_batch"],
                custom_gen: Some(c14::gen_case),
                rule: "case = first build over N0 in {1,150,199,200,201,260,450,1000(,3000)} items then 0-2 incremental rounds (insert 1/50/201/400, delete 0/10/half); a fifth of the cases build 450/1000 items, delete all but 20-60 and rebuild, then add 400/1000/2500 under a small hint (freed low node ids + overflowing batches); another fifth run every build of 260-1000 items under a hint of 0-2 pages with buckets of 1-3 items or the dimension; dims {3,16,64,130,256,1024}, split_after {unset,1,20,200,250,300}, available_memory in {0, 1 page, 3 pages, ~half the items, ~the items, random, ample, 2^40, 2^63, usize::MAX-1, usize::MAX, unset}; every build is bounded by the logical poll clock and followed by the C01 walker and exact queries; non-trivial+distinct = distinct forest shapes with splits",
            }
        }
        "C15" => {
            p.checks = Checks { options: true, build_must_succeed: true, accuracy: true, ..Default::default() };
            p.p_del_only_round = 0.08;
            p.dims = vec![1, 1, 2, 3, 5, 8, 16, 33, 64, 130];
            // also requested counts larger than the usual range (and larger than the number of items)
            p.n_trees = vec![None, None, Some(1), Some(2), Some(3), Some(5), Some(9), Some(10), Some(17), Some(20), Some(21), Some(40), Some(64)];
            p.rounds = (2, 6);
            p.keep_opts = 0.4;
            // the capacity clause holds whatever the memory hint: batches of >200 items under a small hint
            // go through the re-queueing of buckets that overflow in a later batch
            p.memory = vec![None, None, None, Some(0), Some(3 * 4096)];
            p.p_bulk = 0.06;
            p.bulk_max = 500;
            p.max_items = 150;
            p.ops_per_round = (0, 70);
            Plan {
                profile: p,
                cases: (6000, 100000),
                required: &["opt_empty", "opt_single_bucket", "opt_explicit_trees", "opt_auto_trees", "opt_capacity_checked", "opt_search_returns_a_result", "tr_trees_added", "tr_trees_removed"],
                custom_gen: None,
                rule: "case = explorer history whose build options are re-drawn between rounds (tree count grows and shrinks, capacity around the item count, dimension 1 included); after every build Reader-visible tree count, bucket sizes and searchability are compared with the request; non-trivial+distinct = distinct forest shapes with splits",
            }
        }
        "C19" => {
            p.checks = Checks { rejected: true, ..Default::default() };
            p.p_badlen = 0.15;
            p.p_append = 0.15;
            p.p_delete = 0.2;
            p.n_indexes = (1, 3);
            p.max_items = 60;
            p.ops_per_round = (1, 30);
            p.memory = vec![None];
            Plan {
                profile: p,
                cases: (8000, 120000),
                required: &["badlen_rejected", "append_refused", "append_ok", "append_twin_compared", "del_absent", "rejected_dumps_compared"],
                custom_gen: None,
                rule: "case = explorer history with wrong-length add/append/search, appends relative to the current maximum key over several indexes, and deletes of absent ids; the raw dump before and after every rejected call must be identical, error variants and fields exact, a valid append byte-identical to add_item; non-trivial+distinct = distinct (operation kind, effect, index state, metric, size class) situations plus distinct forest shapes with splits",
            }
        }
        "C16" => {
            p.checks = Checks { decode: true, accuracy: true, ..Default::default() };
            p.n_indexes = (1, 3);
            p.rounds = (1, 4);
            p.max_items = 200;
            p.change_metric = true;
            p.values = vec![Values::Grid, Values::Uniform, Values::AllBits];
            Plan {
                profile: p,
                cases: (3000, 60000),
                required: &["dumps_decoded", "entries_decoded", "leaf_headers_checked", "forests_with_splits", "forests_with_item_children"],
                custom_gen: None,
                rule: "backward direction: case = explorer history over 1-3 indexes (all metrics, metric changes, all-bit-pattern values); every raw dump taken after a successful build must parse under the harness's reference decoder of the documented layout (keys, node tags, child kinds, leaf header + vector sizes at the declared dimension, roaring buckets, metadata, version record, key order) and every leaf header must hold what the layout prescribes for its metric (zero bias; the vector's norm; sqrt of the padded length; (sqrt(M^2-|v|^2), M^2) for DotProduct); non-trivial+distinct = distinct forest shapes with splits",
            }
        }
        "C18" => {
            p.checks = Checks { forest: true, exact: true, store: true, isolation: true, metric_change: true, decode: true, build_must_succeed: true, accuracy: true, ..Default::default() };
            p.change_metric = true;
            p.n_indexes = (1, 3);
            p.dims = vec![1, 3, 8, 33, 63, 64, 65, 100, 130];
            p.rounds = (2, 6);
            p.max_items = 120;
            p.ops_per_round = (0, 60);
            p.queries_per_build = 3;
            p.memory = vec![None];
            Plan {
                profile: p,
                cases: (6000, 90000),
                required: &["metric_change_leaves_checked", "metric_change_old_refused", "metric_change_same_unchanged", "exact_queries"],
                custom_gen: None,
                rule: "case = explorer history in which rounds may start with prepare_changing_distance between any ordered pair of the 7 metrics (neighbouring indexes present, dims not multiples of 64); raw leaves, API read-back, need_build, neighbours' bytes and, after the rebuild, the C01 walker and exact by_vector/by_item queries are checked; non-trivial+distinct = distinct forest shapes with splits after a metric change",
            }
        }
        "C20" => {
            p.checks = Checks { forest: true, store: true, lattice: true, termination: true, build_must_succeed: true, accuracy: false, ..Default::default() };
            p.values = (0..degenerate::N_KINDS).map(Values::Degenerate).collect();
            p.split_after = vec![None, None, Some(1), Some(2), Some(20)];
            p.dims = vec![1, 2, 3, 8, 16, 33, 64, 100];
            p.rounds = (1, 3);
            p.max_items = 400;
            p.ops_per_round = (1, 300);
            p.queries_per_build = 1;
            p.memory = vec![None, None, Some(0)];
            p.sparse_ids = false;
            Plan {
                profile: p,
                cases: (2640, 40000),
                required: &["forests_checked", "lattice_queries", "store_full_iters"],
                custom_gen: None,
                rule: "case = explorer history whose vectors come from one of 9 degenerate families (one vector repeated, k distinct repeated, zeros mixed in, points on a line, coords in {0,+-1}, huge magnitudes, subnormals, NaN/inf components, constant coordinates), all 7 metrics; builds are bounded by the logical poll clock, then walker + store check + query lattice without the accuracy clause; non-trivial+distinct = distinct forest shapes with splits",
            }
        }
        _ => return None,
    };
    Some(plan)
}

pub fn metric_list() -> Vec<Metric> {
    crate::metric::ALL_METRICS.to_vec()
}
