//! C12 — binary quantisation keeps exactly the sign pattern and its Hamming geometry.

use std::borrow::Cow;
use std::collections::BTreeSet;

use arroy::distances::{BinaryQuantizedCosine, BinaryQuantizedEuclidean, BinaryQuantizedManhattan};
use arroy::internals::{Leaf, UnalignedVector};
use arroy::Distance;
use rand::rngs::StdRng;
use rand::{Rng, SeedableRng};

use crate::metric::Metric;
use crate::oracle::{self, dist_ok};
use crate::util::{case_seed, hash_str, Counters, J};
use crate::{emit, line, Args};

type Bq = <BinaryQuantizedEuclidean as Distance>::VectorCodec;

/// a component with the requested sign, drawn from hostile representatives
fn component(rng: &mut StdRng, positive: bool) -> f32 {
    let mag: f32 = match rng.gen_range(0..7) {
        0 => 0.0,
        1 => f32::NAN,
        2 => f32::INFINITY,
        3 => f32::from_bits(rng.gen_range(1..0x0080_0000u32)),
        4 => f32::MAX,
        5 => f32::from_bits(0x7fa0_0001), // signalling NaN payload
        _ => rng.gen_range(1e-3f32..10.0),
    };
    let bits = mag.to_bits() & 0x7fff_ffff | if positive { 0 } else { 0x8000_0000 };
    f32::from_bits(bits)
}

fn vector_of(rng: &mut StdRng, pattern: &[bool]) -> Vec<f32> {
    pattern.iter().map(|p| component(rng, *p)).collect()
}

fn raw_bytes(v: &Cow<UnalignedVector<Bq>>) -> Vec<u8> {
    v.clone().into_owned()
}

fn check_codec(pattern: &[bool], rng: &mut StdRng, c: &mut Counters) -> Result<(), String> {
    let d = pattern.len();
    let v = vector_of(rng, pattern);
    let words = d.div_ceil(64);
    let uv = UnalignedVector::<Bq>::from_slice(&v);
    let bytes = raw_bytes(&uv);
    if bytes.len() != words * 8 {
        return Err(format!("from_slice of {d} components produced {} bytes, expected {}", bytes.len(), words * 8));
    }
    for i in 0..words * 64 {
        let w = u64::from_ne_bytes(bytes[(i / 64) * 8..(i / 64) * 8 + 8].try_into().unwrap());
        let bit = (w >> (i % 64)) & 1 == 1;
        let want = i < d && pattern[i];
        if bit != want {
            return Err(format!("from_slice: bit {i} of a {d}-component vector is {bit}, expected {want} (component {:?})", v.get(i)));
        }
    }
    let uv2 = UnalignedVector::<Bq>::from_vec(v.clone());
    if raw_bytes(&uv2) != bytes {
        return Err(format!("from_vec and from_slice disagree for {d} components"));
    }
    if uv.len() != words * 64 {
        return Err(format!("len() = {} for {d} components, expected {}", uv.len(), words * 64));
    }
    let want: Vec<f32> = (0..words * 64).map(|i| if i < d && pattern[i] { 1.0 } else { -1.0 }).collect();
    let tv = uv.to_vec();
    if tv.len() != want.len() || tv.iter().zip(&want).any(|(a, b)| a.to_bits() != b.to_bits()) {
        let i = tv.iter().zip(&want).position(|(a, b)| a.to_bits() != b.to_bits());
        return Err(format!("to_vec of a {d}-component vector: len {} (expected {}), first differing position {i:?}", tv.len(), want.len()));
    }
    let mut it = uv.iter();
    if it.len() != want.len() {
        return Err(format!("iter().len() = {} before iteration, expected {}", it.len(), want.len()));
    }
    let mut k = 0;
    while let Some(x) = it.next() {
        if x.to_bits() != want[k].to_bits() {
            return Err(format!("iter() position {k} of a {d}-component vector is {x}, expected {}", want[k]));
        }
        k += 1;
        if it.len() != want.len() - k {
            return Err(format!("iter().len() = {} after {k} items, expected {}", it.len(), want.len() - k));
        }
    }
    if k != want.len() {
        return Err(format!("iter() yields {k} values, expected {}", want.len()));
    }
    #[cfg(arroy_verif)]
    {
        use arroy::verif::bq;
        if bq::from_slice_plain(&v) != bytes {
            return Err(format!("plain from_slice path disagrees with the dispatched one for {d} components"));
        }
        let p = bq::to_vec_plain(&uv);
        if p.iter().zip(&want).any(|(a, b)| a.to_bits() != b.to_bits()) || p.len() != want.len() {
            return Err(format!("plain to_vec path wrong for {d} components"));
        }
        if let Some(s) = bq::to_vec_simd(&uv) {
            if s.len() != want.len() || s.iter().zip(&want).any(|(a, b)| a.to_bits() != b.to_bits()) {
                return Err(format!("SIMD to_vec path wrong for {d} components"));
            }
            c.inc("c12_simd_to_vec");
        }
    }
    // from_bytes: a byte string that is a multiple of 8 borrows, anything else is refused
    if UnalignedVector::<Bq>::from_bytes(&bytes).is_err() {
        return Err("from_bytes refused a well-formed quantised vector".into());
    }
    if !bytes.is_empty() && UnalignedVector::<Bq>::from_bytes(&bytes[..bytes.len() - 1]).is_ok() {
        return Err("from_bytes accepted a byte string that is not a whole number of words".into());
    }
    c.inc("c12_codec_patterns");
    Ok(())
}

fn bq_leaf<D: Distance<VectorCodec = Bq>>(v: &[f32]) -> Leaf<'static, D> {
    let vector = UnalignedVector::<Bq>::from_vec(v.to_vec());
    Leaf { header: D::new_header(&vector), vector }
}

fn check_distances<D: Distance<VectorCodec = Bq>>(metric: Metric, a: &[f32], chain: &[Vec<f32>], c: &mut Counters) -> Result<(), String> {
    let d = a.len();
    let la = bq_leaf::<D>(a);
    let mut prev: Option<(usize, f32)> = None;
    for b in chain {
        let lb = bq_leaf::<D>(b);
        let raw = D::built_distance(&la, &lb);
        let raw2 = D::built_distance(&lb, &la);
        if raw.to_bits() != raw2.to_bits() {
            return Err(format!("{} distance not symmetric for d={d}: {raw:e} vs {raw2:e}", metric.short()));
        }
        let rep = D::normalized_distance(raw, d);
        let o = oracle::distance(metric, a, b);
        let h = oracle::hamming(a, b);
        if !dist_ok(&o, rep) {
            return Err(format!("{} distance for d={d}, {h} differing signs: arroy {rep:e}, definition {:e} (tolerance {:e})", metric.short(), o.d, o.tol));
        }
        if h == 0 && metric != Metric::BqCosine && rep != 0.0 {
            return Err(format!("{} distance between equal sign patterns (d={d}) is {rep:e}, expected 0", metric.short()));
        }
        if let Some((ph, pr)) = prev {
            if (ph < h && pr > rep) || (ph == h && pr.to_bits() != rep.to_bits()) {
                return Err(format!("{} distance does not order by the number of differing signs (d={d}): h={ph} -> {pr:e}, h={h} -> {rep:e}", metric.short()));
            }
        }
        prev = Some((h, rep));
        c.inc("c12_distances");
    }
    Ok(())
}

fn check_pair_family(pattern: &[bool], rng: &mut StdRng, c: &mut Counters) -> Result<(), String> {
    let d = pattern.len();
    let a = vector_of(rng, pattern);
    // chain: flip 0, 1, 2, ... bits (increasing Hamming distance), then an unrelated vector with the same h as the last
    let mut order: Vec<usize> = (0..d).collect();
    for i in (1..d).rev() {
        order.swap(i, rng.gen_range(0..=i));
    }
    let steps: Vec<usize> = [0usize, 0, 1, 2, 3, d / 2, d.saturating_sub(1), d].into_iter().filter(|s| *s <= d).collect();
    let mut chain = Vec::new();
    let mut last_h = usize::MAX;
    for s in steps {
        if s == last_h && s != 0 {
            continue;
        }
        last_h = s;
        let mut p = pattern.to_vec();
        for k in order.iter().take(s) {
            p[*k] = !p[*k];
        }
        chain.push(vector_of(rng, &p));
    }
    check_distances::<BinaryQuantizedEuclidean>(Metric::BqEuclidean, &a, &chain, c)?;
    check_distances::<BinaryQuantizedManhattan>(Metric::BqManhattan, &a, &chain, c)?;
    check_distances::<BinaryQuantizedCosine>(Metric::BqCosine, &a, &chain, c)?;
    Ok(())
}

/// end to end: what the Writer stores and what queries report
fn check_end_to_end(d: usize, rng: &mut StdRng, c: &mut Counters) -> Result<(), String> {
    use crate::engine::{adb, World};
    use arroy::{Reader, Writer};
    let world = World::new(64 << 20, false);
    let mut wtxn = world.env.write_txn().unwrap();
    let writer = Writer::<BinaryQuantizedEuclidean>::new(adb(world.db), 0, d);
    let mut written = Vec::new();
    for id in 0..12u32 {
        let p: Vec<bool> = (0..d).map(|_| rng.gen_bool(0.5)).collect();
        let v = vector_of(rng, &p);
        writer.add_item(&mut wtxn, id, &v).map_err(|e| format!("add_item: {e:?}"))?;
        written.push((p, v));
    }
    for (id, (p, _)) in written.iter().enumerate() {
        let got = writer.item_vector(&wtxn, id as u32).map_err(|e| format!("{e:?}"))?.ok_or("item_vector None")?;
        let want: Vec<f32> = p.iter().map(|b| if *b { 1.0 } else { -1.0 }).collect();
        if got != want {
            return Err(format!("item_vector({id}) of a {d}-dimensional quantised item: len {} vs {}", got.len(), want.len()));
        }
    }
    let mut r = StdRng::seed_from_u64(7);
    writer.builder(&mut r).n_trees(2).build(&mut wtxn).map_err(|e| format!("build: {e:?}"))?;
    let reader = Reader::<BinaryQuantizedEuclidean>::open(&wtxn, 0, adb(world.db)).map_err(|e| format!("open: {e:?}"))?;
    let q = &written[0].1;
    let mut qb = reader.nns(12);
    qb.search_k(std::num::NonZeroUsize::MAX);
    let res = qb.by_vector(&wtxn, q).map_err(|e| format!("{e:?}"))?;
    for (id, rep) in res {
        let o = oracle::distance(Metric::BqEuclidean, q, &written[id as usize].1);
        if !dist_ok(&o, rep) {
            return Err(format!("query distance to item {id} (d={d}): {rep:e} vs definition {:e}", o.d));
        }
    }
    c.inc("c12_end_to_end");
    Ok(())
}

pub fn run(args: &Args) {
    let seed = args.get_u64("seed", 0);
    let shard = args.get_u64("shard", 0);
    let nshards = args.get_u64("nshards", 1);
    let thorough = args.get("tier") == Some("thorough");
    let max_dim = args.get_u64("max-dim", 300) as usize;
    let exhaustive_upto = args.get_u64("exhaustive", if thorough { 14 } else { 12 }) as usize;
    let random_per_dim = args.get_u64("random", if thorough { 40000 } else { 4000 });
    let e2e = args.get_u64("e2e", 1) == 1;
    let replay = args.kv.get("replay").map(|s| crate::parse_u64(s));
    crate::engine::install_quiet_panic_hook();
    let mut c = Counters::default();
    let mut sigs: BTreeSet<u64> = BTreeSet::new();
    let t0 = std::time::Instant::now();
    let mut samples = Vec::new();
    // every dimension up to max_dim, plus a few large ones (several words, thousands of components)
    let extra_dims: Vec<usize> = if max_dim >= 300 { vec![511, 512, 513, 1000, 1030, 2048, 4097, 6000] } else { vec![] };
    for d in (1..=max_dim).chain(extra_dims.into_iter()) {
        if d as u64 % nshards != shard {
            continue;
        }
        let cs = case_seed(seed, "C12", d as u64);
        if let Some(r) = replay {
            if r != cs {
                continue;
            }
        }
        line(&format!("BEGIN {cs:#x}"));
        let mut rng = StdRng::seed_from_u64(cs);
        let res = crate::engine::guarded(|| -> Result<(), String> {
            if d <= exhaustive_upto {
                for bits in 0..(1u32 << d) {
                    let p: Vec<bool> = (0..d).map(|i| (bits >> i) & 1 == 1).collect();
                    check_codec(&p, &mut rng, &mut c)?;
                    if bits % 7 == 0 || d <= 6 {
                        check_pair_family(&p, &mut rng, &mut c)?;
                    }
                }
                c.inc("c12_dims_exhaustive");
            }
            let random_here = if d > 400 { random_per_dim.min(40) } else { random_per_dim };
            for k in 0..random_here {
                let p: Vec<bool> = match k {
                    0 => vec![true; d],
                    1 => vec![false; d],
                    _ => {
                        let bias = [0.5, 0.1, 0.9][(k % 3) as usize];
                        (0..d).map(|_| rng.gen_bool(bias)).collect()
                    }
                };
                check_codec(&p, &mut rng, &mut c)?;
                check_pair_family(&p, &mut rng, &mut c)?;
            }
            if e2e && (d % 16 == 1 || d == 64 || d == 65 || d == 128) {
                check_end_to_end(d, &mut rng, &mut c)?;
            }
            Ok(())
        })
        .unwrap_or_else(|p| Err(format!("panic: {p}")));
        sigs.insert(hash_str(&format!("dim{d}")));
        c.inc("cases");
        if samples.len() < 2 {
            samples.push(J::obj().set("dimension", J::i(d as u64)).set("exhaustive_sign_patterns", J::Bool(d <= exhaustive_upto)).set("random_patterns", J::i(random_per_dim)));
        }
        match res {
            Ok(()) => line(&format!("END {cs:#x} ok")),
            Err(msg) => {
                c.inc("violations");
                emit("VIOL", &J::obj().set("property", J::s("C12")).set("case_seed", J::s(format!("{cs:#x}"))).set("key", J::s("bq")).set("step", J::i(d as u64)).set("msg", J::s(msg)));
                line(&format!("END {cs:#x} violation"));
            }
        }
    }
    let j = J::obj()
        .set("property", J::s("C12"))
        .set("counters", c.to_json())
        .set("sigs", J::Arr(sigs.iter().map(|s| J::s(format!("{s:x}"))).collect()))
        .set("samples", J::Arr(samples))
        .set("rule", J::s("case = one dimension d in 1..=max_dim: all 2^d sign patterns for small d, random (balanced / mostly negative / mostly positive, all +, all -) beyond; components drawn from +-0, +-NaN (quiet and signalling), +-inf, +-subnormal, +-MAX, +-x; codec paths from_slice/from_vec/to_vec/iter/len (+ plain and SIMD paths through the hook) and the three quantised distances over chains of increasing Hamming distance; non-trivial+distinct = distinct dimensions"))
        .set("required", J::Arr(["c12_codec_patterns", "c12_distances"].iter().map(|s| J::s(*s)).collect()))
        .set("wall_s", J::Num(t0.elapsed().as_secs_f64()));
    emit("SUMMARY", &j);
}
