//! C04 — a stored vector is routed to itself: structural monitor on the decoded forest plus a
//! behavioural monitor through `by_item` with the smallest budget.

use std::num::NonZeroUsize;

use arroy::internals::UnalignedVector;
use arroy::{Distance, Reader};
use heed::RoTxn;
use rand::rngs::StdRng;
use rand::Rng;

use crate::engine::{adb, guarded, IndexModel};
use crate::rawdb::{Child, RawDb, RawIndex, TreeNode, KIND_ITEM};
use crate::util::Counters;

/// margin of `item` against `normal`, computed with arroy's own public function on the stored bytes
fn margin<D: Distance>(normal: &[u8], item: &[u8]) -> f32 {
    let n = UnalignedVector::<D::VectorCodec>::from_bytes(normal).unwrap();
    let v = UnalignedVector::<D::VectorCodec>::from_bytes(item).unwrap();
    D::margin_no_header(&n, &v)
}

/// The same margin from the definition (all seven metrics: the dot product of the two stored vectors;
/// for the quantised ones every stored bit, padding included, counts as +1/-1), in f64 on the raw bytes:
/// (value, bound on what f32 evaluation in any order may deviate, false when f32 partial sums may overflow).
fn margin_by_definition(metric: crate::metric::Metric, normal: &[u8], item: &[u8]) -> Option<(f64, f64, bool)> {
    if normal.len() != item.len() {
        return None;
    }
    if metric.is_bq() {
        let bits = normal.len() as f64 * 8.0;
        let differing: u32 = normal.iter().zip(item).map(|(a, b)| (a ^ b).count_ones()).sum();
        return Some((bits - 2.0 * differing as f64, 0.0, true));
    }
    let n = normal.len() / 4;
    let (mut s, mut sa) = (0f64, 0f64);
    for k in 0..n {
        let a = f32::from_le_bytes(normal[4 * k..4 * k + 4].try_into().unwrap());
        let b = f32::from_le_bytes(item[4 * k..4 * k + 4].try_into().unwrap());
        if !a.is_finite() || !b.is_finite() {
            return None;
        }
        let t = crate::oracle::wide(a) * crate::oracle::wide(b);
        s += t;
        sa += t.abs();
    }
    let tol = (n as f64 + 8.0) * 1.1920928955078125e-7 * sa + n as f64 * 2f64.powi(-140);
    Some((s, tol, sa < 1e37))
}

fn normal_is_zero<D: Distance>(normal: &[u8]) -> bool {
    UnalignedVector::<D::VectorCodec>::from_bytes(normal).unwrap().is_zero()
}

fn items_below(ix: &RawIndex, c: Child, out: &mut Vec<u32>) {
    let mut stack = vec![c];
    while let Some(c) = stack.pop() {
        if c.kind == KIND_ITEM {
            out.push(c.id);
            continue;
        }
        match ix.trees.get(&c.id) {
            Some(TreeNode::Bucket(b)) => out.extend(b.iter()),
            Some(TreeNode::Split { left, right, .. }) => {
                stack.push(*left);
                stack.push(*right);
            }
            None => {}
        }
    }
}

pub fn check_routing<D: Distance>(
    rtxn: &RoTxn,
    db: RawDb,
    m: &IndexModel,
    ix: &RawIndex,
    rng: &mut StdRng,
    c: &mut Counters,
) -> Result<(), String> {
    let Some(meta) = &ix.metadata else { return Ok(()) };
    // items that have at least one tree whose whole path is clean (non-degenerate plane, margin != 0)
    let mut clean: std::collections::BTreeSet<u32> = Default::default();
    for root in &meta.roots {
        // (node, path_clean)
        let mut stack: Vec<(Child, bool)> = vec![(Child { kind: crate::rawdb::KIND_TREE, id: *root }, true)];
        while let Some((ch, path_clean)) = stack.pop() {
            if ch.kind == KIND_ITEM {
                if path_clean {
                    clean.insert(ch.id);
                }
                continue;
            }
            match ix.trees.get(&ch.id) {
                Some(TreeNode::Bucket(b)) => {
                    if path_clean {
                        clean.extend(b.iter());
                    }
                }
                Some(TreeNode::Split { left, right, normal }) => {
                    if normal_is_zero::<D>(normal) {
                        c.inc("routing_random_planes_exempt");
                        stack.push((*left, false));
                        stack.push((*right, false));
                        continue;
                    }
                    // every item below must be on the side its own vector is sent to
                    let mut all_nonzero = true;
                    for (child, is_left) in [(*left, true), (*right, false)] {
                        let mut below = Vec::new();
                        items_below(ix, child, &mut below);
                        for id in below {
                            let Some(item) = ix.items.get(&id) else { continue };
                            let mg = margin::<D>(normal, &item.vector);
                            c.inc("routing_margins_checked");
                            // when the definition leaves no doubt about the side, the crate's margin must say the
                            // same in the reader's argument order (normal, query) and in the writer's (item, normal)
                            if let Some((def, tol, safe)) = margin_by_definition(m.metric, normal, &item.vector) {
                                if safe && def.abs() > tol {
                                    let mw = margin::<D>(&item.vector, normal);
                                    for (who, got) in [("the reader's order (normal, query)", mg), ("the writer's order (item, normal)", mw)] {
                                        let agrees = if def > 0.0 { got > 0.0 } else { got < 0.0 };
                                        if !agrees {
                                            return Err(format!(
                                                "item {id} and the plane of split node {} (tree rooted at {root}): by the definition the margin is {def:e} (±{tol:e}), but margin_no_header in {who} gives {got:e}: a query equal to the item is not sent to the side the item was placed on",
                                                ch.id
                                            ));
                                        }
                                    }
                                    c.inc("routing_margins_vs_definition");
                                    let wrong = if is_left { def > 0.0 } else { def < 0.0 };
                                    if wrong {
                                        return Err(format!(
                                            "item {id} lies in the {} subtree of split node {} (tree rooted at {root}) but by the definition its margin against that plane is {def:e} (±{tol:e})",
                                            if is_left { "left" } else { "right" },
                                            ch.id
                                        ));
                                    }
                                }
                            }
                            if mg == 0.0 || !mg.is_finite() {
                                c.inc("routing_zero_or_nonfinite_margin_exempt");
                                all_nonzero = false;
                                continue;
                            }
                            let wrong = if is_left { mg > 0.0 } else { mg < 0.0 };
                            if wrong {
                                return Err(format!(
                                    "item {id} lies in the {} subtree of split node {} (tree rooted at {root}) but its own margin against that plane is {mg:e}, which sends a query equal to it to the other side",
                                    if is_left { "left" } else { "right" },
                                    ch.id
                                ));
                            }
                        }
                    }
                    // path cleanliness is per item; conservatively a path through this node is clean
                    // only if no item below had a zero margin here
                    stack.push((*left, path_clean && all_nonzero));
                    stack.push((*right, path_clean && all_nonzero));
                }
                None => {}
            }
        }
    }
    c.add("routing_items_with_clean_tree", clean.len() as u64);
    // behavioural: smallest budget still finds the item itself
    if clean.is_empty() {
        return Ok(());
    }
    let reader = Reader::<D>::open(rtxn, m.index, adb::<D>(db)).map_err(|e| format!("Reader::open failed: {e:?}"))?;
    let n = m.items.len();
    let ids: Vec<u32> = clean.iter().copied().collect();
    let probes = ids.len().min(24);
    for _ in 0..probes {
        let id = ids[rng.gen_range(0..ids.len())];
        let mut qb = reader.nns(n);
        qb.search_k(NonZeroUsize::new(1).unwrap());
        qb.oversampling(NonZeroUsize::new(1).unwrap());
        let r = guarded(|| qb.by_item(rtxn, id)).map_err(|p| format!("by_item({id}) panicked: {p}"))?;
        let r = r.map_err(|e| format!("by_item({id}) failed: {e:?}"))?.ok_or_else(|| format!("by_item({id}) -> None for a stored id"))?;
        if !r.iter().any(|(i, _)| *i == id) {
            return Err(format!(
                "by_item({id}) with search_k=1 returned {} candidates not containing the item itself, although a tree separates it by non-degenerate planes only",
                r.len()
            ));
        }
        c.inc("routing_self_lookups");
    }
    Ok(())
}
