//! C04 — a stored vector is routed to itself: structural monitor on the decoded forest plus a
//! behavioural monitor through `by_item` with the smallest budget.

use std::num::NonZeroUsize;

use arroy::internals::UnalignedVector;
use arroy::{Distance, Reader};
use heed::RoTxn;
use rand::rngs::StdRng;
use rand::Rng;

use crate::engine::{adb, guarded, IndexModel};
use crate::rawdb::{Child, RawDb, RawIndex, TreeNode, KIND_ITEM};
use crate::util::Counters;

/// margin of `item` against `normal`, computed with arroy's own public function on the stored bytes
fn margin<D: Distance>(normal: &[u8], item: &[u8]) -> f32 {
    let n = UnalignedVector::<D::VectorCodec>::from_bytes(normal).unwrap();
    let v = UnalignedVector::<D::VectorCodec>::from_bytes(item).unwrap();
    D::margin_no_header(&n, &v)
}

fn normal_is_zero<D: Distance>(normal: &[u8]) -> bool {
    UnalignedVector::<D::VectorCodec>::from_bytes(normal).unwrap().is_zero()
}

fn items_below(ix: &RawIndex, c: Child, out: &mut Vec<u32>) {
    let mut stack = vec![c];
    while let Some(c) = stack.pop() {
        if c.kind == KIND_ITEM {
            out.push(c.id);
            continue;
        }
        match ix.trees.get(&c.id) {
            Some(TreeNode::Bucket(b)) => out.extend(b.iter()),
            Some(TreeNode::Split { left, right, .. }) => {
                stack.push(*left);
                stack.push(*right);
            }
            None => {}
        }
    }
}

pub fn check_routing<D: Distance>(
    rtxn: &RoTxn,
    db: RawDb,
    m: &IndexModel,
    ix: &RawIndex,
    rng: &mut StdRng,
    c: &mut Counters,
) -> Result<(), String> {
    let Some(meta) = &ix.metadata else { return Ok(()) };
    // items that have at least one tree whose whole path is clean (non-degenerate plane, margin != 0)
    let mut clean: std::collections::BTreeSet<u32> = Default::default();
    for root in &meta.roots {
        // (node, path_clean)
        let mut stack: Vec<(Child, bool)> = vec![(Child { kind: crate::rawdb::KIND_TREE, id: *root }, true)];
        while let Some((ch, path_clean)) = stack.pop() {
            if ch.kind == KIND_ITEM {
                if path_clean {
                    clean.insert(ch.id);
                }
                continue;
            }
            match ix.trees.get(&ch.id) {
                Some(TreeNode::Bucket(b)) => {
                    if path_clean {
                        clean.extend(b.iter());
                    }
                }
                Some(TreeNode::Split { left, right, normal }) => {
                    if normal_is_zero::<D>(normal) {
                        c.inc("routing_random_planes_exempt");
                        stack.push((*left, false));
                        stack.push((*right, false));
                        continue;
                    }
                    // every item below must be on the side its own vector is sent to
                    let mut all_nonzero = true;
                    for (child, is_left) in [(*left, true), (*right, false)] {
                        let mut below = Vec::new();
                        items_below(ix, child, &mut below);
                        for id in below {
                            let Some(item) = ix.items.get(&id) else { continue };
                            let mg = margin::<D>(normal, &item.vector);
                            c.inc("routing_margins_checked");
                            if mg == 0.0 || !mg.is_finite() {
                                c.inc("routing_zero_or_nonfinite_margin_exempt");
                                all_nonzero = false;
                                continue;
                            }
                            let wrong = if is_left { mg > 0.0 } else { mg < 0.0 };
                            if wrong {
                                return Err(format!(
                                    "item {id} lies in the {} subtree of split node {} (tree rooted at {root}) but its own margin against that plane is {mg:e}, which sends a query equal to it to the other side",
                                    if is_left { "left" } else { "right" },
                                    ch.id
                                ));
                            }
                        }
                    }
                    // path cleanliness is per item; conservatively a path through this node is clean
                    // only if no item below had a zero margin here
                    stack.push((*left, path_clean && all_nonzero));
                    stack.push((*right, path_clean && all_nonzero));
                }
                None => {}
            }
        }
    }
    c.add("routing_items_with_clean_tree", clean.len() as u64);
    // behavioural: smallest budget still finds the item itself
    if clean.is_empty() {
        return Ok(());
    }
    let reader = Reader::<D>::open(rtxn, m.index, adb::<D>(db)).map_err(|e| format!("Reader::open failed: {e:?}"))?;
    let n = m.items.len();
    let ids: Vec<u32> = clean.iter().copied().collect();
    let probes = ids.len().min(24);
    for _ in 0..probes {
        let id = ids[rng.gen_range(0..ids.len())];
        let mut qb = reader.nns(n);
        qb.search_k(NonZeroUsize::new(1).unwrap());
        qb.oversampling(NonZeroUsize::new(1).unwrap());
        let r = guarded(|| qb.by_item(rtxn, id)).map_err(|p| format!("by_item({id}) panicked: {p}"))?;
        let r = r.map_err(|e| format!("by_item({id}) failed: {e:?}"))?.ok_or_else(|| format!("by_item({id}) -> None for a stored id"))?;
        if !r.iter().any(|(i, _)| *i == id) {
            return Err(format!(
                "by_item({id}) with search_k=1 returned {} candidates not containing the item itself, although a tree separates it by non-degenerate planes only",
                r.len()
            ));
        }
        c.inc("routing_self_lookups");
    }
    Ok(())
}
