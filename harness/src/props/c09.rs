//! C09 — a crash at any moment leaves the last committed index intact.
//!
//! `crash-child`: deterministic multi-version history in its own process; prints
//! `COMMITTING v` before and `ACK v` after each commit; can SIGKILL itself at an enumerated
//! cancellation poll / progress step / item operation (the parent can also kill it from outside,
//! e.g. with `strace -e inject=...:signal=KILL:when=K` inside the commit's syscalls).
//! `crash-verify`: fresh process; reopens the directory and checks that what is visible is exactly
//! the model of the last acknowledged version (or of the one in flight), recomputed from the seed.

use std::collections::BTreeMap;
use std::io::Write;
use std::sync::atomic::{AtomicU64, Ordering};

use arroy::{Distance, Reader, Writer};
use heed::EnvOpenOptions;
use rand::rngs::StdRng;
use rand::{Rng, SeedableRng};

use crate::engine::{self, adb, IndexModel};
use crate::forest;
use crate::metric::{Metric, ALL_METRICS};
use crate::oracle;
use crate::rawdb::{self, RawDb};
use crate::util::mix;
use crate::Args;

pub const SENTINEL: u32 = 4_000_000_000;
const MAP_SIZE: usize = 256 << 20;

pub struct Setup {
    pub metric: Metric,
    pub dims: usize,
    pub index: u16,
    pub n_trees: usize,
    pub split_after: usize,
}

pub fn setup_of(seed: u64) -> Setup {
    let mut rng = StdRng::seed_from_u64(mix(seed ^ 0xC09));
    Setup {
        metric: ALL_METRICS[rng.gen_range(0..7)],
        dims: [16usize, 33, 64][rng.gen_range(0..3)],
        index: [0u16, 1, 65535, 777][rng.gen_range(0..4)],
        n_trees: rng.gen_range(1..5),
        split_after: rng.gen_range(2..12),
    }
}

pub fn sentinel_vec(dims: usize, v: u64) -> Vec<f32> {
    (0..dims).map(|i| if i < 16 { if (v >> i) & 1 == 1 { 1.0 } else { -1.0 } } else { 0.5 }).collect()
}

pub fn decode_sentinel(vec: &[f32]) -> u64 {
    let mut v = 0u64;
    for (i, x) in vec.iter().enumerate().take(16) {
        if x.is_sign_positive() {
            v |= 1 << i;
        }
    }
    v
}

/// In a "metric change" scenario (`--change 1`) version CHANGE_AT is `prepare_changing_distance::<pair>` plus
/// the sentinel, committed WITHOUT a build; every later version works under the new metric.
pub const CHANGE_AT: u64 = 4;

pub fn metric_at(st: &Setup, change: bool, v: u64) -> Metric {
    if change && v >= CHANGE_AT {
        st.metric.pair()
    } else {
        st.metric
    }
}

/// versions whose transaction is committed without a build
pub fn no_build(v: u64, change: bool) -> bool {
    is_staging(v) || (change && v == CHANGE_AT)
}

pub enum VOp {
    Add(u32, Vec<f32>),
    Append(u32, Vec<f32>),
    Del(u32),
}

/// Every third version is a "staging" version: items are appended (ids above everything stored) and the
/// transaction is committed WITHOUT a build; the next version builds. What is pending must survive a crash.
pub fn is_staging(v: u64) -> bool {
    v > 0 && v % 3 == 2
}

/// The item operations of version `v` (v = 0 is the initial population). Pure function of the seed.
pub fn version_ops(seed: u64, v: u64, dims: usize, change: bool) -> Vec<VOp> {
    let mut rng = StdRng::seed_from_u64(mix(seed ^ mix(v + 1)));
    let mut ops = Vec::new();
    if change && v == CHANGE_AT {
        // after prepare_changing_distance: a few writes under the new metric and the sentinel
        for _ in 0..rng.gen_range(0..4) {
            ops.push(VOp::Add(rng.gen_range(0..200u32), (0..dims).map(|_| rng.gen_range(-1.0f32..1.0)).collect()));
        }
        ops.push(VOp::Add(SENTINEL, sentinel_vec(dims, v)));
        return ops;
    }
    if is_staging(v) {
        // the sentinel first (it is the largest id so far), then appends above it
        ops.push(VOp::Add(SENTINEL, sentinel_vec(dims, v)));
        for k in 0..rng.gen_range(3..30u32) {
            ops.push(VOp::Append(SENTINEL + 1000 * v as u32 + k, (0..dims).map(|_| rng.gen_range(-1.0f32..1.0)).collect()));
        }
        return ops;
    }
    let n_add = if v == 0 { 60 } else { rng.gen_range(3..40) };
    let n_del = if v == 0 { 0 } else { rng.gen_range(0..12) };
    for _ in 0..n_del {
        ops.push(VOp::Del(rng.gen_range(0..200)));
    }
    for _ in 0..n_add {
        let id = rng.gen_range(0..200u32);
        ops.push(VOp::Add(id, (0..dims).map(|_| rng.gen_range(-1.0f32..1.0)).collect()));
    }
    ops.push(VOp::Add(SENTINEL, sentinel_vec(dims, v)));
    ops
}

pub fn model_at(seed: u64, v: u64, dims: usize, change: bool, first_metric: Metric) -> BTreeMap<u32, Vec<f32>> {
    let mut m = BTreeMap::new();
    for k in 0..=v {
        for op in version_ops(seed, k, dims, change) {
            match op {
                VOp::Add(id, vec) | VOp::Append(id, vec) => {
                    // what was written before a metric change is re-encoded from what the old metric had stored
                    let vec = if change && v >= CHANGE_AT && k < CHANGE_AT { oracle::expected_readback(first_metric, &vec) } else { vec };
                    m.insert(id, vec);
                }
                VOp::Del(id) => {
                    m.remove(&id);
                }
            }
        }
    }
    m
}

fn say(s: &str) {
    let out = std::io::stdout();
    let mut l = out.lock();
    let _ = writeln!(l, "{s}");
    let _ = l.flush();
}

fn die() -> ! {
    unsafe {
        libc::kill(libc::getpid(), libc::SIGKILL);
    }
    loop {
        std::thread::sleep(std::time::Duration::from_secs(1));
    }
}

/// what the child needs to know about where to die
struct Kill {
    mode: String,
    ver: u64,
    at: u64,
}

/// One version with a writer of the metric that version works under.
#[allow(clippy::too_many_arguments)]
fn child_version<DW: Distance>(mut wtxn: heed::RwTxn, writer: Writer<DW>, seed: u64, v: u64, st: &Setup, change: bool, kill: &Kill, pool: &rayon::ThreadPool) {
    let armed = v == kill.ver && v > 0;
    for (k, op) in version_ops(seed, v, st.dims, change).into_iter().enumerate() {
        if armed && kill.mode == "op" && k as u64 == kill.at {
            die();
        }
        match op {
            VOp::Add(id, vec) => writer.add_item(&mut wtxn, id, &vec).unwrap(),
            VOp::Append(id, vec) => writer.append_item(&mut wtxn, id, &vec).expect("append above every stored id"),
            VOp::Del(id) => {
                writer.del_item(&mut wtxn, id).unwrap();
            }
        }
    }
    let polls = AtomicU64::new(0);
    let steps = AtomicU64::new(0);
    let mut rng = StdRng::seed_from_u64(seed ^ v);
    let n_ops = version_ops(seed, v, st.dims, change).len();
    if no_build(v, change) {
        say(&format!("COUNT {v} polls=0 steps=0 ops={n_ops}"));
        say(&format!("COMMITTING {v}"));
        wtxn.commit().expect("commit");
        say(&format!("ACK {v}"));
        if armed && kill.mode == "after" {
            die();
        }
        return;
    }
    pool.install(|| {
        let mut b = writer.builder(&mut rng);
        b.n_trees(st.n_trees).split_after(st.split_after);
        b.cancel(|| {
            let k = polls.fetch_add(1, Ordering::Relaxed);
            if armed && kill.mode == "poll" && k == kill.at {
                die();
            }
            false
        });
        b.progress(|_| {
            let k = steps.fetch_add(1, Ordering::Relaxed);
            if armed && kill.mode == "step" && k == kill.at {
                die();
            }
        });
        b.build(&mut wtxn).expect("build");
    });
    say(&format!("COUNT {v} polls={} steps={} ops={n_ops}", polls.load(Ordering::Relaxed), steps.load(Ordering::Relaxed)));
    say(&format!("COMMITTING {v}"));
    wtxn.commit().expect("commit");
    say(&format!("ACK {v}"));
    if armed && kill.mode == "after" {
        die();
    }
}

fn child_run<D: Distance, D2: Distance>(args: &Args, st: &Setup) {
    let dir = args.get("dir").expect("--dir");
    let seed = args.get_u64("seed", 0);
    let versions = args.get_u64("versions", 4);
    let change = args.get_u64("change", 0) == 1;
    let kill = args.get("kill").unwrap_or("none").to_string();
    let parts: Vec<&str> = kill.split(':').collect();
    let kill = if parts.len() == 3 { Kill { mode: parts[0].to_string(), ver: parts[1].parse::<u64>().unwrap(), at: parts[2].parse::<u64>().unwrap() } } else { Kill { mode: "none".to_string(), ver: 0, at: 0 } };
    let env = unsafe { EnvOpenOptions::new().map_size(MAP_SIZE).open(dir) }.expect("open env");
    let mut wtxn = env.write_txn().unwrap();
    let db: RawDb = env.create_database(&mut wtxn, None).unwrap();
    wtxn.commit().unwrap();
    let pool = rayon::ThreadPoolBuilder::new().num_threads(1).build().unwrap();
    for v in 0..=versions {
        let mut wtxn = env.write_txn().unwrap();
        if change && v >= CHANGE_AT {
            let mut writer = if v == CHANGE_AT {
                let mut old = Writer::<D>::new(adb::<D>(db), st.index, st.dims);
                if let Some(t) = args.get("tmpdir") {
                    old.set_tmpdir(t);
                }
                if v == kill.ver && kill.mode == "prepare" {
                    die();
                }
                old.prepare_changing_distance::<D2>(&mut wtxn).expect("prepare_changing_distance")
            } else {
                Writer::<D2>::new(adb::<D2>(db), st.index, st.dims)
            };
            if let Some(t) = args.get("tmpdir") {
                writer.set_tmpdir(t);
            }
            child_version::<D2>(wtxn, writer, seed, v, st, change, &kill, &pool);
        } else {
            let mut writer = Writer::<D>::new(adb::<D>(db), st.index, st.dims);
            if let Some(t) = args.get("tmpdir") {
                writer.set_tmpdir(t);
            }
            child_version::<D>(wtxn, writer, seed, v, st, change, &kill, &pool);
        }
    }
    say("DONE");
}

pub fn child(args: &Args) {
    let st = setup_of(args.get_u64("seed", 0));
    crate::with_metric_pair!(st.metric, D, D2, child_run::<D, D2>(args, &st));
}

/// The version the sentinel shows when the index is read as one of metric `DW`.
fn read_version<DW: Distance>(rtxn: &heed::RoTxn<heed::WithTls>, db: RawDb, st: &Setup) -> Option<u64> {
    let wprobe = Writer::<DW>::new(adb::<DW>(db), st.index, st.dims);
    let sv = engine::guarded(|| wprobe.item_vector(rtxn, SENTINEL)).ok()?.ok()??;
    if sv.len() != st.dims {
        return None;
    }
    Some(decode_sentinel(&sv))
}

fn verify_run<D: Distance, D2: Distance>(args: &Args, st: &Setup) -> Result<String, String> {
    let dir = args.get("dir").expect("--dir");
    let nothing_acked = args.get("acked") == Some("none");
    let acked = if nothing_acked { u64::MAX } else { args.get_u64("acked", 0) };
    let inflight = args.kv.get("inflight").and_then(|s| s.parse::<u64>().ok());
    let change = args.get_u64("change", 0) == 1;
    let env = unsafe { EnvOpenOptions::new().map_size(MAP_SIZE).open(dir) }.map_err(|e| format!("the environment does not open after the crash: {e:?}"))?;
    let rtxn = env.read_txn().map_err(|e| format!("{e:?}"))?;
    let db: Option<RawDb> = env.open_database(&rtxn, None).map_err(|e| format!("{e:?}"))?;
    if nothing_acked {
        // killed before the very first commit was acknowledged: either nothing is there, or version 0 (if in flight)
        let empty = match db {
            None => true,
            Some(db) => rawdb::dump(&rtxn, db)?.is_empty(),
        };
        if empty {
            return Ok("v=none items=0 which=empty".to_string());
        }
        if inflight != Some(0) {
            return Err("the database is not empty although no commit had been started".into());
        }
    }
    let db = db.ok_or("the unnamed database is missing after the crash")?;
    // which of the two admissible versions is it? each is read under the metric it was written with
    let mut seen = Vec::new();
    let mut found: Option<u64> = None;
    for cand in [Some(acked).filter(|a| *a != u64::MAX), inflight].into_iter().flatten() {
        let second = change && cand >= CHANGE_AT;
        let got = if second { read_version::<D2>(&rtxn, db, st) } else { read_version::<D>(&rtxn, db, st) };
        seen.push(format!("read as {}: {got:?}", metric_at(st, change, cand).short()));
        if got == Some(cand) {
            found = Some(cand);
            break;
        }
    }
    let v = found.ok_or_else(|| format!("after the crash the version sentinel shows neither the last acknowledged commit {acked} nor the commit in flight {inflight:?} ({})", seen.join("; ")))?;
    drop(rtxn);
    if change && v >= CHANGE_AT {
        verify_state::<D2>(&env, db, args, st, st.metric.pair(), change, v, acked, inflight)
    } else {
        verify_state::<D>(&env, db, args, st, st.metric, change, v, acked, inflight)
    }
}

#[allow(clippy::too_many_arguments)]
fn verify_state<D: Distance>(env: &heed::Env<heed::WithTls>, db: RawDb, args: &Args, st: &Setup, metric: Metric, change: bool, v: u64, acked: u64, inflight: Option<u64>) -> Result<String, String> {
    let seed = args.get_u64("seed", 0);
    let rtxn = env.read_txn().map_err(|e| format!("{e:?}"))?;
    let items = model_at(seed, v, st.dims, change, st.metric);
    let mut m = IndexModel::new(st.index, metric, st.dims);
    m.items = items;
    // right after prepare_changing_distance there is no metadata at all
    m.has_metadata = !(change && (v == CHANGE_AT || (v == CHANGE_AT + 1 && is_staging(v))));
    m.dirty = no_build(v, change);
    let mut c = crate::util::Counters::default();
    let probe: Vec<u32> = m.items.keys().copied().collect();
    engine::check_store::<D>(&rtxn, db, &m, &probe, true, &mut c).map_err(|e| format!("version {v} after the crash: {e}"))?;
    if no_build(v, change) {
        // committed but not built: the index must demand a build, in this fresh process too
        let mut srng = StdRng::seed_from_u64(1);
        engine::check_staleness(&rtxn, db, &m, &mut srng, &mut c).map_err(|e| format!("unbuilt version {v} ({}) after the crash: {e}", if is_staging(v) { "staged appends" } else { "metric change prepared" }))?;
        if change && v == CHANGE_AT {
            // nothing of the old metric's forest may be left
            let own = rawdb::dump_of_index(&rawdb::dump(&rtxn, db)?, st.index);
            if let Some((k, _)) = own.iter().find(|(k, _)| k.len() >= 3 && (k[2] == 0 || k[2] == 2)) {
                return Err(format!("version {v} (metric change prepared, not built) after the crash: the old metric's metadata or tree nodes are still stored, e.g. key {}", k.iter().map(|b| format!("{b:02x}")).collect::<String>()));
            }
        }
        drop(rtxn);
        return finish_after_crash::<D>(env, db, st, metric, args, seed, v, acked, m, c);
    }
    let reader = Reader::<D>::open(&rtxn, st.index, adb::<D>(db)).map_err(|e| format!("Reader::open after the crash: {e:?} (acked={acked}, in flight={inflight:?})"))?;
    let d = rawdb::dump(&rtxn, db)?;
    let decl = |i: u16| if i == st.index { Some((metric, st.dims)) } else { None };
    let dec = rawdb::decode(&d, &decl).map_err(|e| format!("version {v} after the crash does not decode: {e}"))?.remove(&st.index).unwrap_or_default();
    forest::check_forest(&dec, st.dims, metric.disk_name()).map_err(|e| format!("version {v} after the crash: {e}"))?;
    let mut qrng = StdRng::seed_from_u64(seed ^ 99);
    engine::check_exact::<D>(&rtxn, db, &m, &mut qrng, 3, true, &mut c).map_err(|e| format!("version {v} after the crash: {e}"))?;
    drop(reader);
    drop(rtxn);
    finish_after_crash::<D>(env, db, st, metric, args, seed, v, acked, m, c)
}

/// life goes on: one more update + build + commit, then a second, different one
#[allow(clippy::too_many_arguments)]
fn finish_after_crash<D: Distance>(
    env: &heed::Env<heed::WithTls>,
    db: RawDb,
    st: &Setup,
    metric: Metric,
    args: &Args,
    seed: u64,
    v: u64,
    acked: u64,
    mut m: IndexModel,
    mut c: crate::util::Counters,
) -> Result<String, String> {
    let decl = |i: u16| if i == st.index { Some((metric, st.dims)) } else { None };
    let mut wtxn = env.write_txn().map_err(|e| format!("write txn after the crash: {e:?}"))?;
    let mut writer = Writer::<D>::new(adb::<D>(db), st.index, st.dims);
    if let Some(t) = args.get("tmpdir") {
        // the scratch directory the crashed process was using: whatever it left there must not matter
        writer.set_tmpdir(t);
    }
    let extra: Vec<f32> = oracle::expected_readback(Metric::Euclidean, &sentinel_vec(st.dims, 0xAAAA));
    writer.add_item(&mut wtxn, 12345, &extra).map_err(|e| format!("add after the crash: {e:?}"))?;
    writer.del_item(&mut wtxn, *m.items.keys().next().unwrap()).map_err(|e| format!("del after the crash: {e:?}"))?;
    let first = *m.items.keys().next().unwrap();
    m.items.remove(&first);
    m.items.insert(12345, extra);
    let mut rng = StdRng::seed_from_u64(5);
    writer.builder(&mut rng).n_trees(st.n_trees).split_after(st.split_after).build(&mut wtxn).map_err(|e| format!("build after the crash: {e:?}"))?;
    wtxn.commit().map_err(|e| format!("commit after the crash: {e:?}"))?;
    let rtxn = env.read_txn().unwrap();
    let d = rawdb::dump(&rtxn, db)?;
    let dec = rawdb::decode(&d, &decl)?.remove(&st.index).unwrap_or_default();
    forest::check_forest(&dec, st.dims, metric.disk_name()).map_err(|e| format!("after the post-crash update: {e}"))?;
    engine::check_store::<D>(&rtxn, db, &m, &[12345, first], true, &mut c).map_err(|e| format!("after the post-crash update: {e}"))?;
    drop(rtxn);
    // and once more with other content (a leftover of the crashed build must not leak into a later, different build)
    let mut wtxn = env.write_txn().map_err(|e| format!("{e:?}"))?;
    let mut r2 = StdRng::seed_from_u64(seed ^ 0x51);
    for k in 0..25u32 {
        let vecx: Vec<f32> = (0..st.dims).map(|_| r2.gen_range(-1.0f32..1.0)).collect();
        writer.add_item(&mut wtxn, 20_000 + k, &vecx).map_err(|e| format!("second add after the crash: {e:?}"))?;
        m.items.insert(20_000 + k, vecx);
    }
    let mut rng = StdRng::seed_from_u64(6);
    writer.builder(&mut rng).n_trees(st.n_trees).split_after(st.split_after).build(&mut wtxn).map_err(|e| format!("second build after the crash: {e:?}"))?;
    wtxn.commit().map_err(|e| format!("{e:?}"))?;
    let rtxn = env.read_txn().unwrap();
    let d = rawdb::dump(&rtxn, db)?;
    let dec = rawdb::decode(&d, &decl).map_err(|e| format!("after the second post-crash update: {e}"))?.remove(&st.index).unwrap_or_default();
    forest::check_forest(&dec, st.dims, metric.disk_name()).map_err(|e| format!("after the second post-crash update: {e}"))?;
    let mut qrng = StdRng::seed_from_u64(seed ^ 98);
    engine::check_exact::<D>(&rtxn, db, &m, &mut qrng, 2, true, &mut c).map_err(|e| format!("after the second post-crash update: {e}"))?;
    Ok(format!("v={v} items={} which={}", m.items.len(), if v == acked { "acked" } else { "inflight" }))
}

pub fn verify(args: &Args) {
    engine::install_quiet_panic_hook();
    let st = setup_of(args.get_u64("seed", 0));
    let r = engine::guarded(|| crate::with_metric_pair!(st.metric, D, D2, verify_run::<D, D2>(args, &st))).unwrap_or_else(|p| Err(format!("panic while verifying: {p}")));
    match r {
        Ok(s) => say(&format!("VERIFY ok {s} metric={} dims={}", st.metric.short(), st.dims)),
        Err(e) => say(&format!("VERIFY violation {e}")),
    }
}
