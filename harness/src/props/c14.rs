//! C14 — generator with controlled item counts around the 200-item minimum batch and memory
//! hints relative to the size of the items.

use rand::rngs::StdRng;
use rand::seq::SliceRandom;
use rand::{Rng, SeedableRng};

use crate::engine::{gen_vec, BuildOpts, Case, IdDist, IndexModel, Model, Op, Profile, Values};
use crate::metric::ALL_METRICS;

pub fn gen_case(seed: u64, p: &Profile) -> Case {
    let mut rng = StdRng::seed_from_u64(seed);
    let metric = ALL_METRICS[rng.gen_range(0..7)];
    // 1024 dimensions: every f32 item lives on LMDB overflow pages and spans two pages
    let big = rng.gen_bool(0.08);
    let dims = if big { 1024 } else { *[3usize, 16, 64, 130, 256].choose(&mut rng).unwrap() };
    let index: u16 = if rng.gen_bool(0.5) { 0 } else { rng.gen() };
    let mut model = Model::default();
    model.ix.push(IndexModel::new(index, metric, dims));
    let values = if rng.gen_bool(0.5) { Values::Grid } else { Values::Uniform };
    let big = p.max_items >= 3000;
    let counts: &[usize] = if big { &[1, 150, 199, 200, 201, 260, 450, 1000, 3000] } else { &[1, 150, 199, 200, 201, 260, 450, 1000] };
    let n0 = if big { *[150usize, 201, 260, 450].choose(&mut rng).unwrap() } else { *counts.choose(&mut rng).unwrap() };
    let item_bytes = 1 + metric.header_size() + metric.vector_bytes(dims);
    let memories = |rng: &mut StdRng, n: usize| -> Option<usize> {
        match rng.gen_range(0..9) {
            8 => Some([usize::MAX, usize::MAX - 1, 1 << 63, (1 << 63) + 1, usize::MAX / 2 + 1, 1 << 40][rng.gen_range(0..6)]),
            0 => Some(0),
            1 => Some(4096),
            2 => Some(3 * 4096),
            3 => Some(n * item_bytes / 2),
            4 => Some(n * item_bytes),
            5 => Some(64 << 20),
            6 => Some(rng.gen_range(0..(2 * n * item_bytes).max(2))),
            _ => None,
        }
    };
    let split_after = if big { *[Some(20usize), Some(50), Some(250)].choose(&mut rng).unwrap() } else { *[None, None, Some(1usize), Some(20), Some(250), Some(200), Some(300)].choose(&mut rng).unwrap() };
    // automatic tree counts grow with the dimension (hundreds of trees for 256 dims): keep them for small dims
    let n_trees = if dims <= 16 { *[None, Some(1usize), Some(3), Some(5)].choose(&mut rng).unwrap() } else { *[Some(1usize), Some(2), Some(3), Some(5)].choose(&mut rng).unwrap() };
    // a fifth of the cases: build large, delete almost everything and rebuild (tree-node ids below the
    // surviving ones become free), then grow again under a small hint (buckets overflow batch after batch
    // while fresh nodes take the freed low ids)
    // another fifth: everything under a tiny hint with small buckets (sub-trees built from the first 200 items
    // of a bucket, the rest inserted into them: many lone-item children while fresh node ids are still low)
    let tiny_hints = seed % 5 == 1 && dims <= 64;
    let (n0, split_after) = if tiny_hints { (*[260usize, 450, 1000].choose(&mut rng).unwrap(), *[None, Some(1usize), Some(2)].choose(&mut rng).unwrap()) } else { (n0, split_after) };
    let shrink_grow = seed % 5 == 0;
    let (n0, split_after) = if shrink_grow { (*[450usize, 1000].choose(&mut rng).unwrap(), if dims <= 130 { *[None, Some(20usize)].choose(&mut rng).unwrap() } else { Some(20) }) } else { (n0, split_after) };
    let mut ops = Vec::new();
    let mut next_id = 0u32;
    let mut live: Vec<u32> = Vec::new();
    let pool: Vec<Vec<f32>> = Vec::new();
    for _ in 0..n0 {
        ops.push(Op::Add { ix: 0, id: next_id, vec: gen_vec(&mut rng, dims, values, &pool) });
        live.push(next_id);
        next_id += rng.gen_range(1..3);
    }
    let rounds = if shrink_grow { 3 } else { rng.gen_range(1..=3) };
    for r in 0..rounds {
        if r > 0 {
            let k = *[1usize, 50, 201, 400].choose(&mut rng).unwrap();
            let j = match rng.gen_range(0..3) {
                0 => 0,
                1 => 10.min(live.len()),
                _ => live.len() / 2,
            };
            let (k, j) = match (shrink_grow, r) {
                (true, 1) => (1, live.len() - rng.gen_range(20..60)),
                (true, _) => (*[400usize, 1000, 2500].choose(&mut rng).unwrap(), 0),
                _ => (k, j),
            };
            for _ in 0..j {
                let i = rng.gen_range(0..live.len());
                let id = live.swap_remove(i);
                ops.push(Op::Del { ix: 0, id });
            }
            for _ in 0..k {
                // new ids and overwrites
                let id = if rng.gen_bool(0.8) || live.is_empty() {
                    next_id += rng.gen_range(1..3);
                    live.push(next_id);
                    next_id
                } else {
                    live[rng.gen_range(0..live.len())]
                };
                ops.push(Op::Add { ix: 0, id, vec: gen_vec(&mut rng, dims, values, &pool) });
            }
            if rng.gen_bool(0.3) {
                ops.push(Op::Commit);
            }
        }
        let opts = BuildOpts {
            n_trees,
            split_after: if rng.gen_bool(0.85) { split_after } else { None },
            memory: if tiny_hints {
                *[Some(0usize), Some(0), Some(4096), Some(2 * 4096)].choose(&mut rng).unwrap()
            } else if shrink_grow && r == 2 { *[Some(0usize), Some(4096), Some(3 * 4096), Some(live.len() * item_bytes / 2)].choose(&mut rng).unwrap() } else { memories(&mut rng, live.len()) },
            threads: *[1usize, 2, 4, 8].choose(&mut rng).unwrap(),
            rng_seed: rng.gen_range(0..1u64 << 40),
        };
        ops.push(Op::Build { ix: 0, opts });
        ops.push(if rng.gen_bool(0.1) { Op::Abort } else { Op::Commit });
    }
    Case { seed, model, ops, values, id_dist: IdDist::Dense(next_id.max(1)), tmpdir_set: rng.gen_bool(0.3) }
}
