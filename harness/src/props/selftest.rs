//! Monitor self-tests: before a monitor is trusted it must reject states that violate its property.
//! A valid index is built with the real code, dumped and decoded; then each clause of the C01
//! walker, the C02 top-k oracle and the C16 reference decoder is confronted with a state (or an
//! answer) corrupted in exactly the way that clause forbids. A corruption that is *not* rejected
//! is a defect of the harness: the leg reports it as inconclusive, never as a property violation.

use std::collections::BTreeMap;

use arroy::distances::Euclidean;
use arroy::Writer;
use rand::rngs::StdRng;
use rand::{Rng, SeedableRng};
use roaring::RoaringBitmap;

use crate::engine::{adb, World};
use crate::forest::check_forest;
use crate::metric::Metric;
use crate::oracle::{check_topk, distance, TopkSpec};
use crate::rawdb::{self, Child, Dump, RawIndex, TreeNode, KIND_ITEM, KIND_TREE};
use crate::util::{Counters, J};
use crate::{emit, line, Args};

const DIMS: usize = 6;

fn build() -> (Dump, RawIndex, BTreeMap<u32, Vec<f32>>) {
    let world = World::new(64 << 20, false);
    let mut rng = StdRng::seed_from_u64(0x5E1F);
    let mut wtxn = world.env.write_txn().unwrap();
    let w = Writer::<Euclidean>::new(adb(world.db), 3, DIMS);
    let mut items = BTreeMap::new();
    for id in 0..60u32 {
        let v: Vec<f32> = (0..DIMS).map(|_| rng.gen_range(-1.0f32..1.0)).collect();
        w.add_item(&mut wtxn, id * 3, &v).unwrap();
        items.insert(id * 3, v);
    }
    let mut r = StdRng::seed_from_u64(1);
    w.builder(&mut r).n_trees(3).split_after(3).build(&mut wtxn).unwrap();
    let d = rawdb::dump(&wtxn, world.db).unwrap();
    let decl = |i: u16| if i == 3 { Some((Metric::Euclidean, DIMS)) } else { None };
    let ix = rawdb::decode(&d, &decl).unwrap().remove(&3).unwrap();
    (d, ix, items)
}

fn first_bucket(ix: &RawIndex) -> u32 {
    *ix.trees.iter().find(|(_, n)| matches!(n, TreeNode::Bucket(b) if b.len() >= 2)).unwrap().0
}

fn first_split(ix: &RawIndex) -> u32 {
    *ix.trees.iter().find(|(_, n)| matches!(n, TreeNode::Split { .. })).unwrap().0
}

type Mutation = (&'static str, Box<dyn Fn(&mut RawIndex)>);

fn walker_mutations() -> Vec<Mutation> {
    vec![
        ("an item removed from a bucket (unreachable in one tree)", Box::new(|ix| {
            let b = first_bucket(ix);
            if let Some(TreeNode::Bucket(bm)) = ix.trees.get_mut(&b) {
                let v = bm.min().unwrap();
                bm.remove(v);
            }
        })),
        ("a stored item added to a second bucket of the same tree (reached twice)", Box::new(|ix| {
            let buckets: Vec<u32> = ix.trees.iter().filter(|(_, n)| matches!(n, TreeNode::Bucket(_))).map(|(k, _)| *k).collect();
            let donor = match &ix.trees[&buckets[0]] {
                TreeNode::Bucket(b) => b.min().unwrap(),
                _ => unreachable!(),
            };
            // find a bucket in the same tree: any other bucket works for "twice somewhere" or breaks per-tree coverage
            for other in &buckets[1..] {
                if let Some(TreeNode::Bucket(bm)) = ix.trees.get_mut(other) {
                    if bm.insert(donor) {
                        break;
                    }
                }
            }
        })),
        ("a bucket holding an id that is not stored", Box::new(|ix| {
            let b = first_bucket(ix);
            if let Some(TreeNode::Bucket(bm)) = ix.trees.get_mut(&b) {
                bm.insert(1_000_001);
            }
        })),
        ("a split child pointing to a tree node that does not exist", Box::new(|ix| {
            let s = first_split(ix);
            if let Some(TreeNode::Split { left, .. }) = ix.trees.get_mut(&s) {
                *left = Child { kind: KIND_TREE, id: 9_999_999 };
            }
        })),
        ("a split child tagged as an item although it is a tree node", Box::new(|ix| {
            let s = *ix.trees.iter().find(|(_, n)| matches!(n, TreeNode::Split { left, .. } if left.kind == KIND_TREE)).unwrap().0;
            if let Some(TreeNode::Split { left, .. }) = ix.trees.get_mut(&s) {
                left.kind = KIND_ITEM;
            }
        })),
        ("two parents sharing one child node", Box::new(|ix| {
            let splits: Vec<u32> = ix.trees.iter().filter(|(_, n)| matches!(n, TreeNode::Split { .. })).map(|(k, _)| *k).collect();
            let target = match &ix.trees[&splits[0]] {
                TreeNode::Split { left, .. } => *left,
                _ => unreachable!(),
            };
            if let Some(TreeNode::Split { right, .. }) = ix.trees.get_mut(&splits[1]) {
                *right = target;
            }
        })),
        ("an unreferenced tree node left behind", Box::new(|ix| {
            ix.trees.insert(8_888_888, TreeNode::Bucket(RoaringBitmap::new()));
        })),
        ("a stored item missing from the metadata item set", Box::new(|ix| {
            let m = ix.metadata.as_mut().unwrap();
            let v = m.items.min().unwrap();
            m.items.remove(v);
        })),
        ("an item key deleted while the forest still refers to it", Box::new(|ix| {
            let k = *ix.items.keys().next().unwrap();
            ix.items.remove(&k);
            ix.metadata.as_mut().unwrap().items.remove(k);
        })),
        ("a root listed twice", Box::new(|ix| {
            let m = ix.metadata.as_mut().unwrap();
            let r = m.roots[0];
            m.roots.push(r);
        })),
        ("a root that is not a tree node", Box::new(|ix| {
            ix.metadata.as_mut().unwrap().roots[0] = 7_777_777;
        })),
        ("an updated mark left after the build", Box::new(|ix| ix.updated.push(3))),
        ("wrong dimension in the metadata", Box::new(|ix| ix.metadata.as_mut().unwrap().dims = 7)),
        ("wrong metric name in the metadata", Box::new(|ix| ix.metadata.as_mut().unwrap().name = "cosine".into())),
        ("no metadata at all", Box::new(|ix| ix.metadata = None)),
        ("a whole tree dropped from the roots (its nodes become orphans)", Box::new(|ix| {
            ix.metadata.as_mut().unwrap().roots.pop();
        })),
    ]
}

fn brute(items: &BTreeMap<u32, Vec<f32>>, q: &[f32], count: usize) -> Vec<(u32, f32)> {
    let mut v: Vec<(u32, f32)> = items.iter().map(|(id, x)| (*id, distance(Metric::Euclidean, q, x).d as f32)).collect();
    v.sort_by(|a, b| a.1.partial_cmp(&b.1).unwrap());
    v.truncate(count);
    v
}

pub fn run(args: &Args) {
    let _ = args;
    let mut c = Counters::default();
    let mut failures: Vec<String> = Vec::new();
    let t0 = std::time::Instant::now();
    line("BEGIN 0x5e1f");
    let (dump, ix, items) = build();
    // ---- walker
    match check_forest(&ix, DIMS, "euclidean") {
        Ok(_) => c.inc("selftest_valid_states_accepted"),
        Err(e) => failures.push(format!("walker rejects a valid forest: {e}")),
    }
    for (name, m) in walker_mutations() {
        let mut bad = ix.clone();
        m(&mut bad);
        c.inc("selftest_corruptions_total");
        match check_forest(&bad, DIMS, "euclidean") {
            Err(_) => c.inc("selftest_corruptions_rejected"),
            Ok(_) => failures.push(format!("walker accepts: {name}")),
        }
    }
    // ---- top-k oracle
    let q: Vec<f32> = vec![0.1; DIMS];
    let good = brute(&items, &q, 10);
    let spec = |count: usize| TopkSpec { metric: Metric::Euclidean, query: &q, stored: &items, filter: None, count, exact: true, accuracy: true };
    match check_topk(&spec(10), &good) {
        Ok(()) => c.inc("selftest_valid_states_accepted"),
        Err(e) => failures.push(format!("top-k oracle rejects the brute-force answer: {e}")),
    }
    let mut answers: Vec<(&str, Vec<(u32, f32)>, usize)> = Vec::new();
    let mut a = good.clone();
    a.remove(0);
    answers.push(("the nearest item left out (answer too short)", a, 10));
    let mut a = good.clone();
    a[0] = brute(&items, &q, 11)[10];
    a.sort_by(|x, y| x.1.partial_cmp(&y.1).unwrap());
    answers.push(("the nearest item replaced by the 11th", a, 10));
    let mut a = good.clone();
    a[3] = a[2];
    answers.push(("an item returned twice", a, 10));
    let mut a = good.clone();
    a[4].1 *= 1.001;
    answers.push(("a distance off by 0.1 %", a, 10));
    let mut a = good.clone();
    a.swap(1, 8);
    answers.push(("results not ordered", a, 10));
    let mut a = good.clone();
    a[9] = (1_000_000, a[9].1);
    answers.push(("an id that is not stored", a, 10));
    answers.push(("more results than count", brute(&items, &q, 11), 10));
    let f: RoaringBitmap = items.keys().copied().filter(|k| k % 2 == 0).collect();
    let outside = *items.keys().find(|k| *k % 2 == 1).unwrap();
    for (name, ans, count) in answers {
        c.inc("selftest_corruptions_total");
        match check_topk(&spec(count), &ans) {
            Err(_) => c.inc("selftest_corruptions_rejected"),
            Ok(()) => failures.push(format!("top-k oracle accepts: {name}")),
        }
    }
    {
        c.inc("selftest_corruptions_total");
        let fspec = TopkSpec { metric: Metric::Euclidean, query: &q, stored: &items, filter: Some(&f), count: 3, exact: false, accuracy: true };
        let ans = vec![(outside, distance(Metric::Euclidean, &q, &items[&outside]).d as f32)];
        match check_topk(&fspec, &ans) {
            Err(_) => c.inc("selftest_corruptions_rejected"),
            Ok(()) => failures.push("top-k oracle accepts an item outside the candidate filter".into()),
        }
    }
    // ---- reference decoder
    let decl = |i: u16| if i == 3 { Some((Metric::Euclidean, DIMS)) } else { None };
    let split_pos = dump.iter().position(|(k, v)| k[2] == KIND_TREE && v[0] == 2).unwrap();
    let bucket_pos = dump.iter().position(|(k, v)| k[2] == KIND_TREE && v[0] == 1).unwrap();
    let item_pos = dump.iter().position(|(k, _)| k[2] == KIND_ITEM).unwrap();
    let dmut: Vec<(&str, Box<dyn Fn(&mut Dump)>)> = vec![
        ("a 7-byte key", Box::new(move |d| { d[item_pos].0.pop(); })),
        ("a key of unknown kind", Box::new(move |d| d[item_pos].0[2] = 4)),
        ("non-zero key padding", Box::new(move |d| d[item_pos].0[7] = 1)),
        ("a split child of kind 1", Box::new(move |d| d[split_pos].1[1] = 1)),
        ("a split normal one float short", Box::new(move |d| { let n = d[split_pos].1.len(); d[split_pos].1.truncate(n - 4); })),
        ("an item value one float longer than the declared dimension", Box::new(move |d| d[item_pos].1.extend_from_slice(&[0, 0, 0, 0]))),
        ("an item with a tree tag", Box::new(move |d| d[item_pos].1[0] = 1)),
        ("trailing bytes after a bucket bitmap", Box::new(move |d| d[bucket_pos].1.push(0))),
        ("a tree node with an unknown tag", Box::new(move |d| d[bucket_pos].1[0] = 9)),
        ("keys out of (index, kind, id) order", Box::new(move |d| d.swap(item_pos, item_pos + 1))),
        ("a key of an index nobody wrote to", Box::new(move |d| d[item_pos].0[1] ^= 0x40)),
        ("an updated mark with a value", Box::new(move |d| {
            let mut k = d[item_pos].0.clone();
            k[2] = 1;
            d.insert(1, (k, vec![1]));
        })),
    ];
    match rawdb::decode(&dump, &decl) {
        Ok(_) => c.inc("selftest_valid_states_accepted"),
        Err(e) => failures.push(format!("decoder rejects a valid dump: {e}")),
    }
    for (name, m) in dmut {
        let mut bad = dump.clone();
        m(&mut bad);
        c.inc("selftest_corruptions_total");
        match rawdb::decode(&bad, &decl) {
            Err(_) => c.inc("selftest_corruptions_rejected"),
            Ok(_) => failures.push(format!("decoder accepts: {name}")),
        }
    }
    c.inc("cases");
    if failures.is_empty() {
        line("END 0x5e1f ok");
    } else {
        for f in &failures {
            emit("INCONCLUSIVE", &J::obj().set("property", J::s(args.prop.clone())).set("case_seed", J::s("0x5e1f")).set("msg", J::s(format!("monitor self-test failed: {f}"))));
        }
        line("END 0x5e1f inconclusive");
    }
    let j = J::obj()
        .set("property", J::s(args.prop.clone()))
        .set("counters", c.to_json())
        .set("sigs", J::Arr(vec![]))
        .set("samples", J::Arr(vec![J::obj().set("selftest", J::s("16 forest corruptions, 8 answer corruptions, 12 dump corruptions: each must be rejected by the walker / top-k oracle / reference decoder; the uncorrupted state must be accepted"))]))
        .set("rule", J::s("monitor self-test: a valid index built by the real code is corrupted once per clause of the walker, the top-k oracle and the reference decoder; a corruption that is not rejected makes the run inconclusive"))
        .set("required", J::Arr(["selftest_corruptions_rejected", "selftest_valid_states_accepted"].iter().map(|s| J::s(*s)).collect()))
        .set("wall_s", J::Num(t0.elapsed().as_secs_f64()));
    emit("SUMMARY", &j);
}
