//! C13 — parallel tree updates never collide.
//!
//! `ids` worker: direct stress of `ConcurrentNodeIds` (exported by the hook) from several threads
//! with seeded scheduling noise; under Miri the same code runs over every small `used` set with
//! Miri's own scheduler (`-Zmiri-many-seeds`, preemption) and race detector.
//! The in-situ part (id log during real multi-threaded builds) lives in the explorer
//! (`Checks::id_log`), see `check_id_log`.

use std::collections::BTreeSet;

use rand::rngs::StdRng;
use rand::{Rng, SeedableRng};
use roaring::RoaringBitmap;

use crate::util::{case_seed, hash_str, mix, Counters, J};
use crate::{emit, line, Args};

/// Offline check of one build's id log: ids handed out are pairwise distinct and were not in use.
pub fn check_id_log(used_sets: &[Vec<u32>], events: &[(u64, u8, u32)], c: &mut Counters, sigs: &mut Vec<u64>) -> Result<(), String> {
    if used_sets.is_empty() && events.is_empty() {
        // single-bucket shortcut: no id generator at all
        return Ok(());
    }
    if used_sets.len() != 1 {
        return Err(format!("expected exactly one id generator per build, the hook saw {}", used_sets.len()));
    }
    let used: BTreeSet<u32> = used_sets[0].iter().copied().collect();
    let mut seen: std::collections::BTreeMap<u32, (u64, u8)> = Default::default();
    for (thread, site, id) in events {
        if used.contains(id) {
            return Err(format!("tree-node id {id} handed out (thread {thread}, call site {site}) although it is in use in the database"));
        }
        if let Some((t0, s0)) = seen.insert(*id, (*thread, *site)) {
            return Err(format!("tree-node id {id} handed out twice: thread {t0} site {s0} and thread {thread} site {site}"));
        }
    }
    c.add("idlog_ids_checked", events.len() as u64);
    let par: BTreeSet<u64> = events.iter().filter(|e| e.1 == 1).map(|e| e.0).collect();
    if par.len() >= 2 {
        c.inc("idlog_builds_with_concurrent_allocators");
        // signature of the observed interleaving: sequence of thread tags in log order (renumbered)
        let mut ren: std::collections::BTreeMap<u64, u64> = Default::default();
        let mut h = 0u64;
        for (t, s, _) in events.iter().filter(|e| e.1 == 1) {
            let n = ren.len() as u64;
            let k = *ren.entry(*t).or_insert(n);
            h = mix(h ^ k ^ (*s as u64) << 8);
        }
        sigs.push(h);
    }
    Ok(())
}

#[cfg(arroy_verif)]
fn stress_once(used: &RoaringBitmap, threads: usize, calls: usize, chaos_seed: u64, c: &mut Counters, sigs: &mut BTreeSet<u64>) -> Result<(), String> {
    use arroy::verif::{chaos_arm, ConcurrentNodeIds};
    let last_id = used.max().map_or(0, |m| m + 1);
    let available: RoaringBitmap = RoaringBitmap::from_sorted_iter(0..last_id).unwrap() - used;
    let ids = ConcurrentNodeIds::new(used.clone());
    chaos_arm(chaos_seed, 60);
    let results: Vec<Vec<u32>> = std::thread::scope(|s| {
        let hs: Vec<_> = (0..threads)
            .map(|_| {
                let ids = &ids;
                s.spawn(move || {
                    let mut out = Vec::with_capacity(calls);
                    for _ in 0..calls {
                        match ids.next() {
                            Ok(id) => out.push(id),
                            Err(e) => panic!("next() failed: {e:?}"),
                        }
                    }
                    out
                })
            })
            .collect();
        hs.into_iter().map(|h| h.join().expect("requester thread panicked")).collect()
    });
    chaos_arm(0, 0);
    let mut all: Vec<(u32, usize)> = Vec::new();
    for (t, r) in results.iter().enumerate() {
        if r.len() != calls {
            return Err(format!("thread {t} obtained {} ids for {calls} requests", r.len()));
        }
        all.extend(r.iter().map(|id| (*id, t)));
    }
    all.sort_unstable();
    for w in all.windows(2) {
        if w[0].0 == w[1].0 {
            return Err(format!(
                "id {} handed to two requesters (threads {} and {}); used={:?} threads={threads} calls={calls}",
                w[0].0,
                w[0].1,
                w[1].1,
                used.iter().take(12).collect::<Vec<_>>()
            ));
        }
    }
    let mut fresh = Vec::new();
    let mut recycled = RoaringBitmap::new();
    for (id, t) in &all {
        if used.contains(*id) {
            return Err(format!("id {id} handed out (thread {t}) although it is in use; used={:?}", used.iter().take(12).collect::<Vec<_>>()));
        }
        if *id < last_id {
            recycled.insert(*id);
        } else {
            fresh.push(*id);
        }
    }
    // at quiescence: fresh ids only once every recyclable id has been handed out, and they are contiguous
    if !fresh.is_empty() && recycled != available {
        return Err(format!("fresh ids were handed out while {} recyclable ids were never used", (available.len() - recycled.len())));
    }
    for (k, id) in fresh.iter().enumerate() {
        if *id != last_id + k as u32 {
            return Err(format!("fresh ids are not contiguous from {last_id}: position {k} is {id}"));
        }
    }
    c.add("ids_requested", (threads * calls) as u64);
    c.inc("ids_stress_runs");
    if !available.is_empty() && !fresh.is_empty() {
        c.inc("ids_runs_crossing_recycled_to_fresh");
    }
    // interleaving signature: which thread got the k-th id
    let mut h = 0u64;
    for (_, t) in all.iter().take(64) {
        h = mix(h ^ *t as u64);
    }
    sigs.insert(mix(h ^ hash_str(&format!("{threads}|{calls}|{}", used.len()))));
    Ok(())
}

#[cfg(not(arroy_verif))]
fn stress_once(_: &RoaringBitmap, _: usize, _: usize, _: u64, _: &mut Counters, _: &mut BTreeSet<u64>) -> Result<(), String> {
    Err("built without --cfg arroy_verif".into())
}

fn gen_used(rng: &mut StdRng, kind: u64) -> RoaringBitmap {
    match kind % 6 {
        0 => RoaringBitmap::new(),
        1 => (0..rng.gen_range(1..200u32)).collect(),
        2 => (0..rng.gen_range(10..400u32)).filter(|_| rng.gen_bool(0.5)).collect(),
        3 => {
            let mut b: RoaringBitmap = (0..rng.gen_range(1..50u32)).map(|_| rng.gen_range(0..100_000u32)).collect();
            b.insert(rng.gen_range(100_000..200_000));
            b
        }
        4 => {
            // a few holes only: the recycled ids run out almost at once
            let n = rng.gen_range(5..300u32);
            let mut b: RoaringBitmap = (0..n).collect();
            for _ in 0..rng.gen_range(1..4) {
                b.remove(rng.gen_range(0..n));
            }
            b
        }
        _ => [rng.gen_range(0..5u32)].into_iter().collect(),
    }
}

pub fn run(args: &Args) {
    let seed = args.get_u64("seed", 0);
    let shard = args.get_u64("shard", 0);
    let nshards = args.get_u64("nshards", 1);
    let thorough = args.get("tier") == Some("thorough");
    let small = args.get_u64("small", 0) == 1; // Miri mode: enumerate tiny configurations
    let cases = args.get_u64("cases", if thorough { 40_000 } else { 3_000 });
    let replay = args.kv.get("replay").map(|s| crate::parse_u64(s));
    let mut c = Counters::default();
    let mut sigs: BTreeSet<u64> = BTreeSet::new();
    let mut samples = Vec::new();
    let t0 = std::time::Instant::now();
    let mut run_case = |cs: u64, used: RoaringBitmap, threads: usize, calls: usize, c: &mut Counters, sigs: &mut BTreeSet<u64>| {
        line(&format!("BEGIN {cs:#x}"));
        let r = stress_once(&used, threads, calls, cs | 1, c, sigs);
        c.inc("cases");
        match r {
            Ok(()) => line(&format!("END {cs:#x} ok")),
            Err(msg) => {
                c.inc("violations");
                emit("VIOL", &J::obj().set("property", J::s("C13")).set("case_seed", J::s(format!("{cs:#x}"))).set("key", J::s("ids:stress")).set("step", J::i(0)).set("msg", J::s(msg)));
                line(&format!("END {cs:#x} violation"));
            }
        }
    };
    if small {
        // every used subset of {0..4} x 2-3 requesters x 1-3 requests each
        let mut i = 0u64;
        for mask in 0u32..32 {
            for threads in 2..=3usize {
                for calls in 1..=3usize {
                    i += 1;
                    if i % nshards != shard {
                        continue;
                    }
                    let cs = case_seed(seed, "C13small", (mask as u64) << 8 | (threads as u64) << 4 | calls as u64);
                    if replay.map_or(false, |r| r != cs) {
                        continue;
                    }
                    let used: RoaringBitmap = (0..5u32).filter(|b| mask >> b & 1 == 1).collect();
                    run_case(cs, used, threads, calls, &mut c, &mut sigs);
                }
            }
        }
        samples.push(J::obj().set("used", J::s("every subset of {0..4}")).set("threads", J::s("2..=3")).set("requests_per_thread", J::s("1..=3")));
    } else {
        for i in (0..cases).filter(|i| i % nshards == shard) {
            let cs = case_seed(seed, "C13", i);
            if replay.map_or(false, |r| r != cs) {
                continue;
            }
            let mut rng = StdRng::seed_from_u64(cs);
            let used = gen_used(&mut rng, i);
            let threads = [2usize, 3, 4, 8, 16][rng.gen_range(0..5)];
            let calls = match rng.gen_range(0..4) {
                0 => rng.gen_range(1..4),
                1 => rng.gen_range(4..60),
                2 => rng.gen_range(60..600),
                _ => rng.gen_range(600..4000),
            };
            if samples.len() < 2 {
                samples.push(J::obj().set("used_ids", J::i(used.len())).set("used_max", J::s(format!("{:?}", used.max()))).set("threads", J::i(threads as u64)).set("requests_per_thread", J::i(calls as u64)));
            }
            run_case(cs, used, threads, calls, &mut c, &mut sigs);
        }
    }
    let j = J::obj()
        .set("property", J::s("C13"))
        .set("counters", c.to_json())
        .set("sigs", J::Arr(sigs.iter().take(if small { 24 } else { usize::MAX }).map(|s| J::s(format!("{s:x}"))).collect()))
        .set("samples", J::Arr(samples))
        .set("rule", J::s("case = one ConcurrentNodeIds::new(used) shared by T threads making N requests each under seeded yields/spins/sleeps at the statement boundaries of next(); after the threads join all ids must be pairwise distinct, outside used, recycled ids exhausted before fresh ones, fresh ids contiguous; non-trivial+distinct = distinct (who-got-which-id prefix, T, N, |used|) interleaving signatures"))
        .set("required", J::Arr(["ids_stress_runs", "ids_requested", "ids_runs_crossing_recycled_to_fresh"].iter().map(|s| J::s(*s)).collect()))
        .set("wall_s", J::Num(t0.elapsed().as_secs_f64()));
    emit("SUMMARY", &j);
}
