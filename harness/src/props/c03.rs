//! C03 — any-budget, filtered search: well-formed, by_item == by_vector, budget-monotone,
//! unlimited budget + filter == exact restricted search, unset budget == documented default.

use std::num::NonZeroUsize;

use arroy::{Distance, Reader};
use heed::RoTxn;
use rand::rngs::StdRng;
use rand::Rng;
use roaring::RoaringBitmap;

use crate::engine::{adb, gen_id, guarded, IdDist, IndexModel};
use crate::metric::Metric;
use crate::oracle::{self, TopkSpec};
use crate::rawdb::RawDb;
use crate::util::Counters;

type Res = Vec<(u32, f32)>;

#[derive(Clone, Debug)]
struct Q<'a> {
    count: usize,
    search_k: Option<usize>,
    oversampling: Option<usize>,
    filter: Option<&'a RoaringBitmap>,
}

impl Q<'_> {
    fn describe(&self) -> String {
        format!(
            "count={} search_k={:?} oversampling={:?} candidates={}",
            self.count,
            self.search_k,
            self.oversampling,
            self.filter.map_or("none".to_string(), |f| format!("{} ids", f.len()))
        )
    }
}

enum Query<'a> {
    Vector(&'a [f32]),
    Item(u32),
}

fn run<D: Distance>(reader: &Reader<D>, rtxn: &RoTxn, q: &Q, query: &Query) -> Result<Option<Res>, String> {
    let r = guarded(|| {
        let mut qb = reader.nns(q.count);
        if let Some(s) = q.search_k {
            qb.search_k(NonZeroUsize::new(s).unwrap());
        }
        if let Some(o) = q.oversampling {
            qb.oversampling(NonZeroUsize::new(o).unwrap());
        }
        if let Some(f) = q.filter {
            qb.candidates(f);
        }
        match query {
            Query::Vector(v) => qb.by_vector(rtxn, v).map(Some),
            Query::Item(i) => qb.by_item(rtxn, *i),
        }
    });
    match r {
        Err(p) => Err(format!("query ({}) panicked: {p}", q.describe())),
        Ok(Err(e)) => Err(format!("query ({}) failed: {e:?}", q.describe())),
        Ok(Ok(r)) => Ok(r),
    }
}

fn same_list(a: &Res, b: &Res) -> bool {
    a.len() == b.len() && a.iter().zip(b).all(|(x, y)| x.0 == y.0 && x.1.to_bits() == y.1.to_bits())
}

pub fn check_lattice<D: Distance>(
    rtxn: &RoTxn,
    db: RawDb,
    m: &IndexModel,
    rng: &mut StdRng,
    n_queries: usize,
    accuracy: bool,
    c: &mut Counters,
) -> Result<(), String> {
    let reader = Reader::<D>::open(rtxn, m.index, adb::<D>(db)).map_err(|e| format!("Reader::open after a successful build failed: {e:?}"))?;
    let stored = &m.items;
    let n = stored.len();
    let ids: Vec<u32> = stored.keys().copied().collect();
    let n_trees = reader.n_trees();
    let all: RoaringBitmap = ids.iter().copied().collect();
    for qi in 0..n_queries {
        // ---- the query
        let by_item_id = if !ids.is_empty() && qi % 2 == 0 { Some(ids[rng.gen_range(0..ids.len())]) } else { None };
        let qvec: Vec<f32> = match by_item_id {
            Some(id) => stored[&id].clone(),
            None => {
                if !ids.is_empty() && rng.gen_bool(0.5) {
                    stored[&ids[rng.gen_range(0..ids.len())]].iter().map(|x| if x.is_finite() { x + 0.03 } else { 0.5 }).collect()
                } else {
                    (0..m.dims).map(|_| rng.gen_range(-2.0f32..2.0)).collect()
                }
            }
        };
        // ---- the filter
        let filter_bm: Option<RoaringBitmap> = match rng.gen_range(0..7) {
            0 | 1 => None,
            2 => Some(RoaringBitmap::new()),
            3 => Some((0..20).map(|_| gen_id(rng, IdDist::Sparse)).filter(|i| !all.contains(*i)).collect()),
            4 => Some(ids.iter().copied().filter(|_| rng.gen_bool(0.5)).collect()),
            5 => {
                let mut b: RoaringBitmap = ids.iter().copied().filter(|_| rng.gen_bool(0.3)).collect();
                for _ in 0..10 {
                    b.insert(gen_id(rng, IdDist::Sparse));
                }
                Some(b)
            }
            _ => {
                let mut b = all.clone();
                for _ in 0..10 {
                    b.insert(gen_id(rng, IdDist::Sparse));
                }
                Some(b)
            }
        };
        let filter = filter_bm.as_ref();
        c.inc(match filter {
            None => "lattice_filter_none",
            Some(f) if f.is_empty() => "lattice_filter_empty",
            Some(f) if (f & &all).is_empty() => "lattice_filter_disjoint",
            Some(f) if f.is_superset(&all) => "lattice_filter_superset",
            _ => "lattice_filter_partial",
        });
        let counts = [0usize, 1, 2, 5, n, n + 3, 1 << 31, 1 << 63, usize::MAX];
        let overs = [None, Some(1usize), Some(2), Some(7), Some(usize::MAX)];
        let ladder: Vec<usize> = {
            let mut l = vec![1usize, 2, 3, 5, 10, 50, n.max(1), (10 * n).max(1), usize::MAX];
            l.sort_unstable();
            l.dedup();
            l
        };
        for _ in 0..2 {
            let count = counts[rng.gen_range(0..counts.len())];
            let oversampling = overs[rng.gen_range(0..overs.len())];
            let query = match by_item_id {
                Some(id) => Query::Item(id),
                None => Query::Vector(&qvec),
            };
            let mut prev: Option<(usize, Res)> = None;
            for &sk in &ladder {
                let q = Q { count, search_k: Some(sk), oversampling, filter };
                let res = run::<D>(&reader, rtxn, &q, &query)?.ok_or_else(|| format!("by_item -> None for stored id ({})", q.describe()))?;
                c.inc("lattice_queries");
                let exact = sk == usize::MAX;
                let spec = TopkSpec { metric: m.metric, query: &qvec, stored, filter, count, exact, accuracy };
                oracle::check_topk(&spec, &res).map_err(|e| format!("{} over {n} items, {n_trees} trees: {e}", q.describe()))?;
                // by_item == by_vector of the stored vector
                if let Some(id) = by_item_id {
                    let rv = run::<D>(&reader, rtxn, &q, &Query::Vector(&qvec))?.unwrap();
                    if !same_list(&res, &rv) {
                        return Err(format!("by_item({id}) != by_vector(stored vector of {id}) for {}: {:?} vs {:?}", q.describe(), head(&res), head(&rv)));
                    }
                    c.inc("lattice_by_item_eq_by_vector");
                }
                // budget monotonicity in arroy's own reported distances
                if let Some((psk, pres)) = &prev {
                    if res.len() < pres.len() {
                        return Err(format!(
                            "enlarging search_k from {psk} to {sk} shortened the result from {} to {} ({})",
                            pres.len(),
                            res.len(),
                            q.describe()
                        ));
                    }
                    for (r, (a, b)) in pres.iter().zip(res.iter()).enumerate() {
                        if a.1.is_nan() || b.1.is_nan() {
                            continue;
                        }
                        let worse = if m.metric == Metric::DotProduct { b.1 < a.1 } else { b.1 > a.1 };
                        if worse {
                            return Err(format!(
                                "enlarging search_k from {psk} to {sk} made rank {r} worse: {:e} -> {:e} ({})",
                                a.1,
                                b.1,
                                q.describe()
                            ));
                        }
                    }
                    c.inc("lattice_monotone_pairs");
                }
                prev = Some((sk, res));
            }
            // unset budget == count x n_trees x default oversampling (saturating)
            let default_over = m.metric.default_oversampling();
            let product = count.saturating_mul(n_trees).saturating_mul(default_over);
            if product > 0 {
                let unset = Q { count, search_k: None, oversampling: None, filter };
                let a = run::<D>(&reader, rtxn, &unset, &query)?.unwrap();
                let explicit = Q { count, search_k: Some(product), oversampling: Some(1), filter };
                let b = run::<D>(&reader, rtxn, &explicit, &query)?.unwrap();
                if !same_list(&a, &b) {
                    return Err(format!(
                        "budget unset ({}) differs from explicit search_k = count x n_trees x default oversampling = {count} x {n_trees} x {default_over} (saturating: {product}): {:?} vs {:?}",
                        unset.describe(),
                        head(&a),
                        head(&b)
                    ));
                }
                let spec = TopkSpec { metric: m.metric, query: &qvec, stored, filter, count, exact: false, accuracy };
                oracle::check_topk(&spec, &a).map_err(|e| format!("{}: {e}", unset.describe()))?;
                c.inc("lattice_default_budget_compared");
                if count >= 1 << 31 {
                    c.inc("lattice_huge_count_default_budget");
                }
            }
        }
        // unknown id -> Ok(None), never an error
        let unknown = loop {
            let id = gen_id(rng, IdDist::Sparse);
            if !all.contains(id) {
                break id;
            }
        };
        let q = Q { count: 3, search_k: None, oversampling: None, filter: None };
        match run::<D>(&reader, rtxn, &q, &Query::Item(unknown))? {
            None => c.inc("lattice_unknown_id_none"),
            Some(r) => return Err(format!("by_item({unknown}) for an id that is not stored returned {} results instead of None", r.len())),
        }
    }
    Ok(())
}

fn head(r: &Res) -> Vec<(u32, f32)> {
    r.iter().take(6).copied().collect()
}
