//! C18 — changing the metric keeps the items and forces a rebuild.

use arroy::{Distance, Writer};
use heed::RwTxn;

use crate::engine::{adb, guarded, CaseEnd, Engine, Model, World};
use crate::metric::Metric;
use crate::oracle;
use crate::rawdb::{self, Dump, KIND_ITEM, KIND_METADATA, KIND_TREE};
use crate::with_metric;

fn change<D: Distance, ND: Distance>(
    wtxn: &mut RwTxn,
    db: rawdb::RawDb,
    index: u16,
    dims: usize,
    tmpdir: Option<&std::path::Path>,
) -> Result<Result<Writer<ND>, arroy::Error>, String> {
    guarded(|| {
        let mut w = Writer::<D>::new(adb::<D>(db), index, dims);
        if let Some(t) = tmpdir {
            w.set_tmpdir(t);
        }
        w.prepare_changing_distance::<ND>(wtxn)
    })
}


#[allow(clippy::too_many_arguments)]
pub fn apply_change_metric(
    e: &mut Engine,
    world: &World,
    wtxn: &mut RwTxn,
    model: &mut Model,
    op_ix: usize,
    to: Metric,
    step: usize,
    pre: &Dump,
) -> Option<CaseEnd> {
    let db = world.db;
    let owned = e.p.checks.metric_change;
    macro_rules! vio {
        ($step:expr, $key:expr, $msg:expr) => {
            Some(e.own(owned, $step, $key, $msg))
        };
    }
    let (index, from, dims) = {
        let m = &model.ix[op_ix];
        (m.index, m.metric, m.dims)
    };
    let desc = format!("change-metric(index={index}, {} -> {})", from.short(), to.short());
    let tmpdir = e.tmpdir.clone();
    // the writer arroy hands back is the one the caller goes on with: keep it for the following operations
    let r: Result<Result<(), arroy::Error>, String> = with_metric!(from, D, with_metric!(to, ND, {
        match change::<D, ND>(wtxn, db, index, dims, tmpdir.as_deref()) {
            Ok(Ok(w)) => {
                e.writers.forget(index);
                e.writers.put::<ND>(index, to, dims, w);
                Ok(Ok(()))
            }
            Ok(Err(err)) => Ok(Err(err)),
            Err(p) => Err(p),
        }
    }));
    match r {
        Ok(Ok(())) => {}
        Ok(Err(err)) => return vio!(step, "metric-change:error", format!("{desc} failed: {err:?}")),
        Err(p) => return vio!(step, "metric-change:panic", format!("{desc} panicked: {p}")),
    }
    e.c.inc(&format!("metric_change_{}_to_{}", from.short(), to.short()));
    let post = rawdb::dump(wtxn, db).unwrap();
    if from == to {
        if let Some(d) = rawdb::first_diff(pre, &post) {
            return vio!(step, "metric-change:same", format!("{desc} (same metric) must change nothing, but {d}"));
        }
        e.c.inc("metric_change_same_unchanged");
        return None;
    }
    // ---- model update: vectors as representable under the new metric
    {
        let m = &mut model.ix[op_ix];
        if from.is_bq() {
            // information below the sign was never stored: what is kept is the +-1 pattern
            for v in m.items.values_mut() {
                *v = oracle::expected_readback(from, v);
            }
        }
        m.prev_metric = Some(from);
        m.metric = to;
        m.has_metadata = false;
        m.dirty = true;
        m.const_capacity = None;
        m.capacity_mixed = false;
    }
    e.prev_forest.remove(&index);
    let m = model.ix[op_ix].clone();
    if !owned {
        // a profile that does not own the metric-change clauses: its own monitors look first (the item store
        // through the API is C05's as much as C18's); the raw-layout clauses below would only truncate the case
        if e.p.checks.store {
            let probe: Vec<u32> = m.items.keys().copied().take(6).collect();
            if let Err(err) = with_metric!(to, ND, crate::engine::check_store::<ND>(wtxn, db, &m, &probe, true, &mut e.c)) {
                return Some(e.own(true, step, "store:after-metric-change", format!("{desc}: {err}")));
            }
            e.c.inc("store_checks_after_metric_change");
        }
        return None;
    }
    // ---- raw view of the index
    let own = rawdb::dump_of_index(&post, index);
    let mut n_items = 0usize;
    for (k, v) in &own {
        let key = match rawdb::parse_key(k) {
            Ok(k) => k,
            Err(err) => return vio!(step, "metric-change:decode", format!("{desc}: {err}")),
        };
        match key.kind {
            KIND_TREE => return vio!(step, "metric-change:forest-left", format!("{desc}: tree node {} of the old forest is still there", key.id)),
            KIND_METADATA if key.id == 0 => return vio!(step, "metric-change:metadata-left", format!("{desc}: the old metadata is still there")),
            KIND_ITEM => {
                n_items += 1;
                let want = match m.items.get(&key.id) {
                    Some(w) => w,
                    None => return vio!(step, "metric-change:items", format!("{desc}: item {} appeared", key.id)),
                };
                let item = match rawdb::decode_item(v, to, dims, &format!("item {}", key.id)) {
                    Ok(i) => i,
                    Err(err) => {
                        return vio!(step, "metric-change:leaf-layout", format!("{desc}: stored leaf is not in the new metric's layout at the declared dimension: {err}"))
                    }
                };
                let ok = if to.is_bq() {
                    let bits = rawdb::bq_bits_of(&item.vector, dims);
                    bits.iter().zip(want).all(|(b, w)| *b == w.is_sign_positive()) && rawdb::bq_padding_clear(&item.vector, dims)
                } else {
                    let got = rawdb::f32s_of(&item.vector);
                    let want = oracle::expected_readback(to, want);
                    got.iter().zip(&want).all(|(a, b)| a.to_bits() == b.to_bits())
                };
                if !ok {
                    return vio!(step, "metric-change:vector", format!("{desc}: stored vector of item {} is not the old vector as representable under the new metric", key.id));
                }
            }
            _ => {}
        }
    }
    if n_items != m.items.len() {
        return vio!(step, "metric-change:items", format!("{desc}: {n_items} items stored afterwards, {} before", m.items.len()));
    }
    e.c.add("metric_change_leaves_checked", n_items as u64);
    // need_build, and the old metric no longer opens
    let nb = with_metric!(to, ND, Writer::<ND>::new(adb::<ND>(db), index, dims).need_build(wtxn));
    match nb {
        Ok(true) => {}
        other => return vio!(step, "metric-change:need-build", format!("{desc}: need_build -> {other:?}, expected true")),
    }
    // through the API under the new metric
    let probe: Vec<u32> = m.items.keys().copied().take(6).collect();
    if let Err(err) = with_metric!(to, ND, crate::engine::check_store::<ND>(wtxn, db, &m, &probe, true, &mut e.c)) {
        return vio!(step, "metric-change:store", format!("{desc}: {err}"));
    }
    None
}
