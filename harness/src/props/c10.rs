//! C10 — a build that fails or is cancelled reports it and can be rolled back.
//!
//! Fault enumeration: (a) monotone cancellation from the n-th poll for every n, (b) LMDB map sizes
//! from too small to ample, (c) unusable temp directory / temp-file writes failing (RLIMIT_FSIZE),
//! (d) thousands of successful / cancelled / failed builds in one process with fd and temp-dir
//! leak probes.

use std::collections::BTreeSet;
use std::sync::atomic::{AtomicU64, AtomicU8, Ordering};

use arroy::{Distance, MainStep, Writer};
use heed::{RwTxn, WithTls};
use rand::rngs::StdRng;
use rand::{Rng, SeedableRng};

use crate::engine::{self, adb, guarded, pool, BuildOpts, IndexModel, World};
use crate::forest;
use crate::metric::{Metric, ALL_METRICS};
use crate::rawdb::{self, RawDb};
use crate::util::{case_seed, hash_str, Counters, J};
use crate::{emit, line, with_metric, Args};

pub enum Outcome {
    Ok,
    Cancelled,
    HeedErr(String),
    IoErr(String),
    OtherErr(String),
    Panic(String),
}

pub struct BuildRun {
    pub outcome: Outcome,
    pub polls: u64,
    /// MainStep that was current when the callback first answered true
    pub step_at_cancel: Option<u8>,
}

/// Runs a build whose cancellation callback answers true from its `cancel_at`-th call on.
pub fn build_with_cancel<D: Distance>(
    wtxn: &mut RwTxn,
    db: RawDb,
    index: u16,
    dims: usize,
    opts: &BuildOpts,
    tmpdir: Option<&std::path::Path>,
    cancel_at: Option<u64>,
) -> BuildRun {
    let mut writer = Writer::<D>::new(adb::<D>(db), index, dims);
    if let Some(t) = tmpdir {
        writer.set_tmpdir(t);
    }
    build_on::<D>(wtxn, &writer, opts, cancel_at)
}

/// Same, on a Writer the caller keeps.
pub fn build_on<D: Distance>(wtxn: &mut RwTxn, writer: &Writer<D>, opts: &BuildOpts, cancel_at: Option<u64>) -> BuildRun {
    let polls = AtomicU64::new(0);
    let step = AtomicU8::new(255);
    let step_at_cancel = AtomicU8::new(255);
    let mut rng = StdRng::seed_from_u64(opts.rng_seed);
    let p = pool(opts.threads);
    let r = guarded(|| {
        p.install(|| {
            let mut b = writer.builder(&mut rng);
            if let Some(n) = opts.n_trees {
                b.n_trees(n);
            }
            if let Some(s) = opts.split_after {
                b.split_after(s);
            }
            if let Some(m) = opts.memory {
                b.available_memory(m);
            }
            b.progress(|p| step.store(p.main as u8, Ordering::Relaxed));
            b.cancel(|| {
                let k = polls.fetch_add(1, Ordering::Relaxed);
                match cancel_at {
                    Some(n) if k >= n => {
                        let _ = step_at_cancel.compare_exchange(255, step.load(Ordering::Relaxed), Ordering::Relaxed, Ordering::Relaxed);
                        true
                    }
                    _ => false,
                }
            });
            b.build(wtxn)
        })
    });
    let outcome = match r {
        Err(p) => Outcome::Panic(p),
        Ok(Ok(())) => Outcome::Ok,
        Ok(Err(arroy::Error::BuildCancelled)) => Outcome::Cancelled,
        Ok(Err(arroy::Error::Heed(e))) => Outcome::HeedErr(format!("{e:?}")),
        Ok(Err(arroy::Error::Io(e))) => Outcome::IoErr(format!("{e:?}")),
        Ok(Err(e)) => Outcome::OtherErr(format!("{e:?}")),
    };
    let s = step_at_cancel.load(Ordering::Relaxed);
    BuildRun { outcome, polls: polls.load(Ordering::Relaxed), step_at_cancel: if s == 255 { None } else { Some(s) } }
}

struct Scenario {
    metric: Metric,
    dims: usize,
    index: u16,
    base: Vec<(u32, Vec<f32>)>,
    pending_add: Vec<(u32, Vec<f32>)>,
    pending_del: Vec<u32>,
    /// options of the build that produced the committed base state
    base_opts: BuildOpts,
    /// options of the faulted build over the pending updates
    opts: BuildOpts,
}

fn gen_scenario(rng: &mut StdRng, n_base: usize, n_add: usize, n_del: usize) -> Scenario {
    let metric = ALL_METRICS[rng.gen_range(0..7)];
    let dims = [3usize, 8, 16, 33][rng.gen_range(0..4)];
    let vecf = |rng: &mut StdRng| -> Vec<f32> { (0..dims).map(|_| rng.gen_range(-1.0f32..1.0)).collect() };
    let base: Vec<(u32, Vec<f32>)> = (0..n_base as u32).map(|i| (i * 2, vecf(rng))).collect();
    let mut pending_add = Vec::new();
    for k in 0..n_add {
        let id = if k % 4 == 0 { base[rng.gen_range(0..base.len())].0 } else { 1 + 2 * rng.gen_range(0..(n_base as u32 * 2)) };
        pending_add.push((id, vecf(rng)));
    }
    let mut pending_del = Vec::new();
    for _ in 0..n_del {
        pending_del.push(base[rng.gen_range(0..base.len())].0);
    }
    let opts = BuildOpts {
        n_trees: Some([1usize, 3, 5][rng.gen_range(0..3)]),
        split_after: Some(if rng.gen_bool(0.25) { rng.gen_range(20..60) } else { rng.gen_range(3..16) }),
        memory: if rng.gen_bool(0.3) { Some(0) } else { None },
        threads: if rng.gen_bool(0.5) { 1 } else { 4 },
        rng_seed: rng.gen_range(0..1 << 40),
    };
    let mut base_opts = opts.clone();
    if rng.gen_bool(0.45) {
        // the faulted build has to grow or shrink the forest
        base_opts.n_trees = Some([1usize, 2, 4, 6][rng.gen_range(0..4)]);
    }
    if rng.gen_bool(0.2) {
        base_opts.split_after = Some(rng.gen_range(3..16));
    }
    Scenario { metric, dims, index: if rng.gen_bool(0.5) { 0 } else { rng.gen() }, base, pending_add, pending_del, base_opts, opts }
}

fn apply_pending<D: Distance>(wtxn: &mut RwTxn, db: RawDb, sc: &Scenario, m: &mut IndexModel) -> Result<(), String> {
    let w = Writer::<D>::new(adb::<D>(db), sc.index, sc.dims);
    for id in &sc.pending_del {
        w.del_item(wtxn, *id).map_err(|e| format!("del_item: {e:?}"))?;
        m.items.remove(id);
    }
    for (id, v) in &sc.pending_add {
        w.add_item(wtxn, *id, v).map_err(|e| format!("add_item: {e:?}"))?;
        m.items.insert(*id, v.clone());
    }
    Ok(())
}

fn walk(wtxn: &RwTxn, db: RawDb, m: &IndexModel) -> Result<forest::ForestStats, String> {
    let d = rawdb::dump(wtxn, db)?;
    let own = rawdb::dump_of_index(&d, m.index);
    let decl = |i: u16| if i == m.index { Some((m.metric, m.dims)) } else { None };
    let dec = rawdb::decode(&own, &decl)?.remove(&m.index).unwrap_or_default();
    forest::check_forest(&dec, m.dims, m.metric.disk_name())
}

fn committed_dump(world: &World) -> rawdb::Dump {
    let rtxn = world.env.read_txn().unwrap();
    rawdb::dump(&rtxn, world.db).unwrap()
}

/// One `ArroyBuilder` is cancelled from its n-th poll in a transaction that is then aborted; the fault is
/// lifted and the same builder builds in a new transaction: that build must succeed with the configured options.
fn same_builder_retry<D: Distance>(world: &World, sc: &Scenario, base_model: &IndexModel, n: u64, c: &mut Counters) -> Result<(), String> {
    let writer = Writer::<D>::new(adb::<D>(world.db), sc.index, sc.dims);
    let mut rng = StdRng::seed_from_u64(sc.opts.rng_seed);
    let polls = AtomicU64::new(0);
    let from = AtomicU64::new(n);
    let p = pool(sc.opts.threads);
    let mut b = writer.builder(&mut rng);
    if let Some(t) = sc.opts.n_trees {
        b.n_trees(t);
    }
    if let Some(s) = sc.opts.split_after {
        b.split_after(s);
    }
    if let Some(m) = sc.opts.memory {
        b.available_memory(m);
    }
    b.cancel(|| polls.fetch_add(1, Ordering::Relaxed) >= from.load(Ordering::Relaxed));
    {
        let mut wtxn = world.env.write_txn().unwrap();
        let mut m = base_model.clone();
        apply_pending::<D>(&mut wtxn, world.db, sc, &mut m)?;
        match guarded(|| p.install(|| b.build(&mut wtxn))) {
            Err(pn) => return Err(format!("cancel from poll {n}: build panicked: {pn}")),
            Ok(Ok(())) | Ok(Err(arroy::Error::BuildCancelled)) => {}
            Ok(Err(e)) => return Err(format!("cancel from poll {n}: build returned {e:?} instead of BuildCancelled")),
        }
        wtxn.abort();
    }
    from.store(u64::MAX, Ordering::Relaxed);
    let mut wtxn = world.env.write_txn().unwrap();
    let mut m = base_model.clone();
    apply_pending::<D>(&mut wtxn, world.db, sc, &mut m)?;
    match guarded(|| p.install(|| b.build(&mut wtxn))) {
        Err(pn) => return Err(format!("retry on the same builder after a cancellation at poll {n}: build panicked: {pn}")),
        Ok(Ok(())) => {}
        Ok(Err(e)) => return Err(format!("retry on the same builder after a cancellation at poll {n} (callback now always answers false): build returned {e:?}")),
    }
    let st = walk(&wtxn, world.db, &m).map_err(|e| format!("retry on the same builder after a cancellation at poll {n}: {e}"))?;
    if let Some(t) = sc.opts.n_trees {
        if m.items.len() > sc.opts.capacity(sc.dims) && st.n_trees != t {
            return Err(format!("retry on the same builder after a cancellation at poll {n}: {} trees requested, forest has {}", t, st.n_trees));
        }
    }
    wtxn.abort();
    c.inc("same_builder_retries");
    Ok(())
}

/// (a) cancellation at every n
fn case_cancel<D: Distance>(sc: &Scenario, stride: u64, c: &mut Counters, sigs: &mut BTreeSet<u64>) -> Result<(), String> {
    let world = World::new(256 << 20, false);
    let mut base_model = IndexModel::new(sc.index, sc.metric, sc.dims);
    {
        let mut wtxn = world.env.write_txn().unwrap();
        let w = Writer::<D>::new(adb::<D>(world.db), sc.index, sc.dims);
        for (id, v) in &sc.base {
            w.add_item(&mut wtxn, *id, v).map_err(|e| format!("{e:?}"))?;
            base_model.items.insert(*id, v.clone());
        }
        let r = build_with_cancel::<D>(&mut wtxn, world.db, sc.index, sc.dims, &sc.base_opts, None, None);
        if !matches!(r.outcome, Outcome::Ok) {
            return Err("base build failed".into());
        }
        wtxn.commit().unwrap();
    }
    let pre = committed_dump(&world);
    // counting run
    let total = {
        let mut wtxn = world.env.write_txn().unwrap();
        let mut m = base_model.clone();
        apply_pending::<D>(&mut wtxn, world.db, sc, &mut m)?;
        let r = build_with_cancel::<D>(&mut wtxn, world.db, sc.index, sc.dims, &sc.opts, None, None);
        if !matches!(r.outcome, Outcome::Ok) {
            return Err("fault-free build of the pending updates failed".into());
        }
        walk(&wtxn, world.db, &m).map_err(|e| format!("fault-free build: {e}"))?;
        wtxn.abort();
        r.polls
    };
    c.max("max_polls_of_a_complete_build", total);
    let mut n = 0u64;
    // go a little past the total: the callback may never be asked again -> the build completes
    while n <= total + 3 {
        let mut wtxn = world.env.write_txn().unwrap();
        let mut m = base_model.clone();
        apply_pending::<D>(&mut wtxn, world.db, sc, &mut m)?;
        let r = build_with_cancel::<D>(&mut wtxn, world.db, sc.index, sc.dims, &sc.opts, None, Some(n));
        match &r.outcome {
            Outcome::Cancelled => {
                c.inc("cancel_reported");
                if let Some(s) = r.step_at_cancel {
                    sigs.insert(hash_str(&format!("cancelled-in-step-{s}")));
                    c.inc(&format!("cancelled_in_step_{s}"));
                }
                if r.polls <= n {
                    return Err(format!("build reported BuildCancelled although the callback never answered true (polls={}, cancel from {n})", r.polls));
                }
            }
            Outcome::Ok => {
                // legal only if the forest is complete and valid
                c.inc("cancel_completed_anyway");
                walk(&wtxn, world.db, &m).map_err(|e| format!("cancel from poll {n} of {total}: build returned Ok over a half-built forest: {e}"))?;
                if r.polls > n + 1 && sc.opts.threads == 1 {
                    return Err(format!("cancel from poll {n}: the callback answered true {} times and the build still reported success", r.polls - n));
                }
            }
            Outcome::Panic(p) => return Err(format!("cancel from poll {n} of {total}: build panicked: {p}")),
            Outcome::HeedErr(e) | Outcome::IoErr(e) | Outcome::OtherErr(e) => {
                return Err(format!("cancel from poll {n} of {total}: build returned {e} instead of BuildCancelled"))
            }
        }
        wtxn.abort();
        let post = committed_dump(&world);
        if let Some(d) = rawdb::first_diff(&pre, &post) {
            return Err(format!("after aborting the build cancelled at poll {n}: database differs from its previous contents: {d}"));
        }
        c.inc("cancel_points_enumerated");
        n += if n < 40 || n + 40 > total { 1 } else { stride };
    }
    // retry on the very same builder object, in a fresh transaction, once the fault is lifted
    for n in [0, total / 3, total.saturating_sub(1)] {
        same_builder_retry::<D>(&world, sc, &base_model, n, c)?;
    }
    // clean retry
    let mut wtxn = world.env.write_txn().unwrap();
    let mut m = base_model.clone();
    apply_pending::<D>(&mut wtxn, world.db, sc, &mut m)?;
    let r = build_with_cancel::<D>(&mut wtxn, world.db, sc.index, sc.dims, &sc.opts, None, None);
    if !matches!(r.outcome, Outcome::Ok) {
        return Err("clean retry after the cancelled builds failed".into());
    }
    walk(&wtxn, world.db, &m).map_err(|e| format!("clean retry: {e}"))?;
    m.has_metadata = true;
    let mut qrng = StdRng::seed_from_u64(1);
    engine::check_exact::<D>(&wtxn, world.db, &m, &mut qrng, 3, true, c).map_err(|e| format!("clean retry: {e}"))?;
    wtxn.commit().map_err(|e| format!("{e:?}"))?;
    c.inc("cancel_scenarios");
    Ok(())
}

/// (b) LMDB map sizes from too small to ample
fn case_mapsize<D: Distance>(sc: &Scenario, map_size: usize, c: &mut Counters, sigs: &mut BTreeSet<u64>) -> Result<(), String> {
    let world = World::new(map_size, false);
    let pre = committed_dump(&world);
    let mut m = IndexModel::new(sc.index, sc.metric, sc.dims);
    let mut failed_at: Option<&'static str> = None;
    {
        let mut wtxn = world.env.write_txn().unwrap();
        let w = Writer::<D>::new(adb::<D>(world.db), sc.index, sc.dims);
        for (id, v) in sc.base.iter().chain(sc.pending_add.iter()) {
            match guarded(|| w.add_item(&mut wtxn, *id, v)) {
                Ok(Ok(())) => {
                    m.items.insert(*id, v.clone());
                }
                Ok(Err(arroy::Error::Heed(e))) => {
                    if !format!("{e:?}").contains("MapFull") {
                        return Err(format!("map size {map_size}: add_item ran out of space but reported {e:?}, not the corresponding error (MDB_MAP_FULL)"));
                    }
                    failed_at = Some("add");
                    break;
                }
                Ok(Err(e)) => return Err(format!("map size {map_size}: add_item failed with {e:?} (expected a heed error)")),
                Err(p) => return Err(format!("map size {map_size}: add_item panicked: {p}")),
            }
        }
        if failed_at.is_none() {
            let r = build_with_cancel::<D>(&mut wtxn, world.db, sc.index, sc.dims, &sc.opts, None, None);
            match r.outcome {
                Outcome::Ok => {
                    walk(&wtxn, world.db, &m).map_err(|e| format!("map size {map_size}: build returned Ok but {e}"))?;
                }
                Outcome::HeedErr(e) => {
                    if !e.contains("MapFull") {
                        return Err(format!("map size {map_size}: the build ran out of space but reported {e}, not the corresponding error (MDB_MAP_FULL)"));
                    }
                    failed_at = Some("build")
                }
                Outcome::Panic(p) => return Err(format!("map size {map_size}: build panicked: {p}")),
                Outcome::Cancelled => return Err(format!("map size {map_size}: build reported BuildCancelled without being asked")),
                Outcome::IoErr(e) | Outcome::OtherErr(e) => return Err(format!("map size {map_size}: build failed with {e} (expected a heed error)")),
            }
        }
        if failed_at.is_none() {
            match wtxn.commit() {
                Ok(()) => {}
                Err(_) => failed_at = Some("commit"),
            }
        } else {
            wtxn.abort();
        }
    }
    match failed_at {
        None => {
            c.inc("mapsize_ample");
            sigs.insert(hash_str("mapsize-ok"));
            // committed state must be what was built
            let rtxn = world.env.read_txn().unwrap();
            let d = rawdb::dump(&rtxn, world.db)?;
            let decl = |i: u16| if i == m.index { Some((m.metric, m.dims)) } else { None };
            let dec = rawdb::decode(&d, &decl)?.remove(&m.index).unwrap_or_default();
            forest::check_forest(&dec, m.dims, m.metric.disk_name()).map_err(|e| format!("map size {map_size}: committed forest: {e}"))?;
        }
        Some(at) => {
            c.inc(&format!("mapsize_full_during_{at}"));
            sigs.insert(hash_str(&format!("mapsize-full-{at}")));
            let post = committed_dump(&world);
            if let Some(d) = rawdb::first_diff(&pre, &post) {
                return Err(format!("map size {map_size}: after the failed transaction the database differs from its previous contents: {d}"));
            }
            // retry without the fault: grow the map, same work
            unsafe { world.env.resize(256 << 20) }.map_err(|e| format!("resize: {e:?}"))?;
            let mut wtxn = world.env.write_txn().unwrap();
            let w = Writer::<D>::new(adb::<D>(world.db), sc.index, sc.dims);
            let mut m = IndexModel::new(sc.index, sc.metric, sc.dims);
            for (id, v) in sc.base.iter().chain(sc.pending_add.iter()) {
                w.add_item(&mut wtxn, *id, v).map_err(|e| format!("retry add: {e:?}"))?;
                m.items.insert(*id, v.clone());
            }
            let r = build_with_cancel::<D>(&mut wtxn, world.db, sc.index, sc.dims, &sc.opts, None, None);
            if !matches!(r.outcome, Outcome::Ok) {
                return Err(format!("map size {map_size}: retry with an ample map failed"));
            }
            walk(&wtxn, world.db, &m).map_err(|e| format!("map size {map_size}: retry: {e}"))?;
            wtxn.commit().map_err(|e| format!("retry commit: {e:?}"))?;
            c.inc("mapsize_retry_ok");
        }
    }
    Ok(())
}

fn fd_count() -> usize {
    std::fs::read_dir("/proc/self/fd").map(|d| d.count()).unwrap_or(0)
}

fn dir_listing(p: &std::path::Path) -> Vec<String> {
    let mut v: Vec<String> = std::fs::read_dir(p).map(|d| d.filter_map(|e| e.ok()).map(|e| e.file_name().to_string_lossy().to_string()).collect()).unwrap_or_default();
    v.sort();
    v
}

/// (c) temp directory missing / a regular file / writes failing, and (d) leak probes over many builds
fn case_tmp_and_leaks<D: Distance>(sc: &Scenario, n_builds: usize, rng: &mut StdRng, c: &mut Counters, sigs: &mut BTreeSet<u64>) -> Result<(), String> {
    let world = World::new(256 << 20, false);
    let tmp = tempfile::tempdir_in(engine::scratch_root()).unwrap();
    let good = tmp.path().join("good");
    std::fs::create_dir(&good).unwrap();
    let missing = tmp.path().join("does-not-exist");
    let regular = tmp.path().join("a-file");
    std::fs::write(&regular, b"x").unwrap();
    let mut model = IndexModel::new(sc.index, sc.metric, sc.dims);
    {
        let mut wtxn = world.env.write_txn().unwrap();
        let w = Writer::<D>::new(adb::<D>(world.db), sc.index, sc.dims);
        for (id, v) in &sc.base {
            w.add_item(&mut wtxn, *id, v).map_err(|e| format!("{e:?}"))?;
            model.items.insert(*id, v.clone());
        }
        let r = build_with_cancel::<D>(&mut wtxn, world.db, sc.index, sc.dims, &sc.base_opts, Some(&good), None);
        if !matches!(r.outcome, Outcome::Ok) {
            return Err("base build failed".into());
        }
        wtxn.commit().unwrap();
    }
    // warm up pools so that thread creation does not disturb the fd probe
    let _ = pool(1);
    let _ = pool(4);
    let listing0 = dir_listing(&good);
    let pre = committed_dump(&world);
    let mut fds0 = fd_count();
    for b in 0..n_builds {
        let mut wtxn = world.env.write_txn().unwrap();
        let mut m = model.clone();
        apply_pending::<D>(&mut wtxn, world.db, sc, &mut m)?;
        let kind = rng.gen_range(0..5);
        let (tmpdir, cancel): (&std::path::Path, Option<u64>) = match kind {
            0 => (&good, None),
            1 => (&good, Some(rng.gen_range(0..1500))),
            2 => (&missing, None),
            3 => (&regular, None),
            _ => (&good, None),
        };
        let limited = kind == 4;
        let mut old = libc::rlimit { rlim_cur: 0, rlim_max: 0 };
        if limited {
            unsafe {
                libc::signal(libc::SIGXFSZ, libc::SIG_IGN);
                libc::getrlimit(libc::RLIMIT_FSIZE, &mut old);
                let lim = libc::rlimit { rlim_cur: 512, rlim_max: old.rlim_max };
                libc::setrlimit(libc::RLIMIT_FSIZE, &lim);
            }
        }
        let r = build_with_cancel::<D>(&mut wtxn, world.db, sc.index, sc.dims, &sc.opts, Some(tmpdir), cancel);
        if limited {
            unsafe {
                libc::setrlimit(libc::RLIMIT_FSIZE, &old);
            }
        }
        let what = ["plain", "cancelled", "tmpdir-missing", "tmpdir-is-a-file", "tmpfile-write-limit"][kind];
        match (&r.outcome, kind) {
            (Outcome::Panic(p), _) => return Err(format!("build #{b} ({what}) panicked: {p}")),
            (Outcome::Ok, 0) => c.inc("leak_builds_ok"),
            (Outcome::Ok, 1) | (Outcome::Cancelled, 1) => c.inc("leak_builds_cancelled"),
            (Outcome::HeedErr(e), 2 | 3) | (Outcome::IoErr(e), 2 | 3) => {
                if !e.contains("Io") && !e.contains("Os") {
                    return Err(format!("build #{b} ({what}) failed with {e}, expected an io error"));
                }
                c.inc(&format!("tmp_{}", what.replace('-', "_")));
                sigs.insert(hash_str(what));
            }
            (Outcome::HeedErr(e), 4) | (Outcome::IoErr(e), 4) => {
                if !e.contains("Io") && !e.contains("Os") {
                    return Err(format!("build #{b} ({what}) failed with {e}, expected an io error"));
                }
                c.inc("tmp_write_failed_reported");
                sigs.insert(hash_str(what));
            }
            (Outcome::Ok, 4) => c.inc("tmp_write_limit_not_reached"),
            (Outcome::Ok, 2 | 3) => {
                // legal only when no temp file was needed at all (single-bucket shortcut)
                if m.items.len() > sc.opts.capacity(sc.dims) {
                    return Err(format!("build #{b} ({what}) reported success although its temp directory is unusable"));
                }
            }
            (o, _) => {
                let d = match o {
                    Outcome::Cancelled => "BuildCancelled".to_string(),
                    Outcome::HeedErr(e) | Outcome::IoErr(e) | Outcome::OtherErr(e) => e.clone(),
                    _ => "?".into(),
                };
                return Err(format!("build #{b} ({what}) ended with {d}"));
            }
        }
        if matches!(r.outcome, Outcome::Ok) {
            walk(&wtxn, world.db, &m).map_err(|e| format!("build #{b} ({what}) returned Ok but {e}"))?;
        }
        wtxn.abort();
        if b % 16 == 0 {
            let post = committed_dump(&world);
            if let Some(d) = rawdb::first_diff(&pre, &post) {
                return Err(format!("after aborting build #{b} ({what}): {d}"));
            }
        }
        let fds = fd_count();
        if b == 0 {
            fds0 = fds; // first build may lazily open things unrelated to arroy (e.g. /proc handles)
        } else if fds != fds0 {
            return Err(format!("open file descriptors went from {fds0} to {fds} after build #{b} ({what})"));
        }
        let l = dir_listing(&good);
        if l != listing0 {
            return Err(format!("temp directory listing changed after build #{b} ({what}): {l:?}"));
        }
        c.inc("leak_probes");
    }
    // retry without fault
    let mut wtxn = world.env.write_txn().unwrap();
    let mut m = model.clone();
    apply_pending::<D>(&mut wtxn, world.db, sc, &mut m)?;
    let r = build_with_cancel::<D>(&mut wtxn, world.db, sc.index, sc.dims, &sc.opts, Some(&good), None);
    if !matches!(r.outcome, Outcome::Ok) {
        return Err("clean retry after the faulted builds failed".into());
    }
    walk(&wtxn, world.db, &m).map_err(|e| format!("clean retry: {e}"))?;
    wtxn.commit().map_err(|e| format!("{e:?}"))?;
    Ok(())
}

#[allow(dead_code)]
fn _unused(_: heed::Env<WithTls>, _: MainStep) {}

pub fn run(args: &Args) {
    let seed = args.get_u64("seed", 0);
    let shard = args.get_u64("shard", 0);
    let nshards = args.get_u64("nshards", 1);
    let thorough = args.get("tier") == Some("thorough");
    let replay = args.kv.get("replay").map(|s| crate::parse_u64(s));
    engine::install_quiet_panic_hook();
    let mut c = Counters::default();
    let mut sigs: BTreeSet<u64> = BTreeSet::new();
    let mut samples = Vec::new();
    let t0 = std::time::Instant::now();
    // case list: (kind, parameter)
    let n_cancel = if thorough { 480 } else { 96 };
    let stride = if thorough { 1 } else { 5 };
    let map_sizes: Vec<usize> = [64usize, 80, 96, 128, 160, 192, 256, 320, 384, 512, 640, 768, 1024, 1536, 2048, 3072, 4096, 8192].iter().map(|k| k * 1024).collect();
    let n_map_rounds = if thorough { 24 } else { 4 };
    let n_leak = if thorough { 96 } else { 32 };
    let leak_builds = if thorough { 1200 } else { 250 };
    let mut cases: Vec<(u8, u64)> = Vec::new();
    for i in 0..n_cancel {
        cases.push((0, i));
    }
    for r in 0..n_map_rounds {
        for (k, _) in map_sizes.iter().enumerate() {
            cases.push((1, (r as u64) << 8 | k as u64));
        }
    }
    for i in 0..n_leak {
        cases.push((2, i));
    }
    for (ci, (kind, param)) in cases.iter().enumerate() {
        if ci as u64 % nshards != shard {
            continue;
        }
        let cs = case_seed(seed, "C10", (*kind as u64) << 32 | *param);
        if replay.map_or(false, |r| r != cs) {
            continue;
        }
        line(&format!("BEGIN {cs:#x}"));
        let mut rng = StdRng::seed_from_u64(cs);
        let res = guarded(|| match kind {
            0 => {
                // mostly a deep forest with pending updates; sometimes an index that fits one bucket
                // also: few pending updates (no bucket overflows, so the last polls of the build are the
                // write-back loops), deletions only, insertions only
                let sc = match *param % 9 {
                    8 => gen_scenario(&mut rng, 3, 2, 1),
                    7 => gen_scenario(&mut rng, 120, 2, 1),
                    6 => gen_scenario(&mut rng, 150, 1, 0),
                    5 => gen_scenario(&mut rng, 120, 0, 12),
                    4 => gen_scenario(&mut rng, 200, 12, 0),
                    _ => gen_scenario(&mut rng, 120, 40, 30),
                };
                if samples.len() < 1 {
                    samples.push(J::obj().set("kind", J::s("cancel-at-every-poll")).set("metric", J::s(sc.metric.short())).set("dims", J::i(sc.dims as u64)).set("base_items", J::i(sc.base.len() as u64)).set("pending", J::s(format!("{} adds/overwrites, {} deletes", sc.pending_add.len(), sc.pending_del.len()))).set("build", J::s(sc.opts.describe())));
                }
                with_metric!(sc.metric, D, case_cancel::<D>(&sc, stride, &mut c, &mut sigs))
            }
            1 => {
                let sc = gen_scenario(&mut rng, 900, 300, 0);
                let ms = map_sizes[(*param & 0xff) as usize];
                if samples.len() < 2 {
                    samples.push(J::obj().set("kind", J::s("map-size")).set("map_size", J::i(ms as u64)).set("items", J::i(1200)).set("dims", J::i(sc.dims as u64)));
                }
                with_metric!(sc.metric, D, case_mapsize::<D>(&sc, ms, &mut c, &mut sigs))
            }
            _ => {
                let sc = gen_scenario(&mut rng, 100, 30, 20);
                with_metric!(sc.metric, D, case_tmp_and_leaks::<D>(&sc, leak_builds, &mut rng, &mut c, &mut sigs))
            }
        })
        .unwrap_or_else(|p| Err(format!("harness panic: {p}")));
        c.inc("cases");
        match res {
            Ok(()) => line(&format!("END {cs:#x} ok")),
            Err(msg) => {
                c.inc("violations");
                emit("VIOL", &J::obj().set("property", J::s("C10")).set("case_seed", J::s(format!("{cs:#x}"))).set("key", J::s(["fault:cancel", "fault:mapsize", "fault:tmp-or-leak"][*kind as usize])).set("step", J::i(*param)).set("msg", J::s(msg)));
                line(&format!("END {cs:#x} violation"));
            }
        }
    }
    if samples.is_empty() {
        samples.push(J::obj().set("kind", J::s("leak probes over faulted builds")));
    }
    let j = J::obj()
        .set("property", J::s("C10"))
        .set("counters", c.to_json())
        .set("sigs", J::Arr(sigs.iter().map(|s| J::s(format!("{s:x}"))).collect()))
        .set("samples", J::Arr(samples))
        .set("rule", J::s("fault enumeration: (a) per scenario (built index of 3-200 items + pending insertions/overwrites/deletions from none to 40+30, forests that must grow, shrink or stay) the cancellation callback answers true from its n-th call for n over the polls of a complete build (every n thorough; first/last 40 and every 7th quick), pools of 1 and 4 threads, plus three retries per scenario on the same ArroyBuilder object after its cancellation (fresh transaction, fault lifted); (b) 18 LMDB map sizes from 64 KiB to 8 MiB around a ~1-3 MiB workload (the error must be MDB_MAP_FULL itself); (c) temp dir missing / a regular file / temp-file writes failing under RLIMIT_FSIZE; (d) fd count and temp-dir listing after each of hundreds of successful, cancelled and failed builds per process; non-trivial+distinct = distinct fault outcomes (MainStep at cancellation, map-full site, temp fault kind)"))
        .set("required", J::Arr(["cancel_points_enumerated", "cancel_reported", "same_builder_retries", "leak_probes", "tmp_tmpdir_missing", "tmp_tmpdir_is_a_file", "mapsize_ample", "mapsize_retry_ok"].iter().map(|s| J::s(*s)).collect()))
        .set("wall_s", J::Num(t0.elapsed().as_secs_f64()));
    emit("SUMMARY", &j);
}
