//! C08 — writers are atomic and readers keep a consistent snapshot.
//!
//! One writer thread produces versions (updates + sentinel + build in a local rayon pool, then
//! commit or abort); reader threads open snapshots at arbitrary moments, identify the version they
//! landed on through the sentinel item and compare the *whole* snapshot with the model of that
//! version, also after holding the read transaction across later commits.

use std::collections::{BTreeMap, BTreeSet};
use std::sync::atomic::{AtomicBool, AtomicU64, Ordering};
use std::sync::Mutex;

use arroy::{Distance, Reader, Writer};
use rand::rngs::StdRng;
use rand::{Rng, SeedableRng};

use crate::engine::{self, adb, guarded, pool, BuildOpts, IndexModel, World};
use crate::forest;
use crate::metric::{Metric, ALL_METRICS};
use crate::props::c09::{decode_sentinel, sentinel_vec, SENTINEL};
use crate::props::c10::Outcome;
use crate::rawdb;
use crate::util::{case_seed, mix, Counters, J};
use crate::{emit, line, with_metric, Args};

type Items = BTreeMap<u32, Vec<f32>>;

struct Shared {
    models: Mutex<BTreeMap<u64, Items>>,
    commit_started: AtomicU64,
    committed: AtomicU64,
    /// 0 idle, 1 adding, 2 building, 3 committing, 4 aborting
    phase: AtomicU64,
    stop: AtomicBool,
    failure: Mutex<Option<String>>,
    /// content of the bystander index when the case has one
    stable: Option<Items>,
    /// staged commits (updates committed without a build: the index must refuse to open until the next
    /// built commit) begun, and how many of them a completed built commit has covered
    stage_started: AtomicU64,
    stage_cleared: AtomicU64,
    /// version 0 is an empty built index (no sentinel)
    empty_start: bool,
}

const NEED_BUILD: &str = "need-build";

/// A built index the writer never touches and, right after it in key order, an index the writer only
/// stages items into, builds now and then, and clears: what happens there must not show through.
const STABLE: u16 = 7000;
const NOISE: u16 = 7001;

fn fail(sh: &Shared, msg: String) {
    let mut f = sh.failure.lock().unwrap();
    if f.is_none() {
        *f = Some(msg);
    }
    sh.stop.store(true, Ordering::SeqCst);
}

fn nap(rng: &mut StdRng) {
    match rng.gen_range(0..6) {
        0 => std::thread::yield_now(),
        1 => std::thread::sleep(std::time::Duration::from_micros(rng.gen_range(1..300))),
        2 => std::thread::sleep(std::time::Duration::from_micros(rng.gen_range(300..3000))),
        _ => {}
    }
}

struct ReaderStats {
    c: Counters,
    sigs: BTreeSet<u64>,
}

#[allow(clippy::too_many_arguments)]
fn check_snapshot<D: Distance>(
    rtxn: &heed::RoTxn<heed::WithTls>,
    db: rawdb::RawDb,
    index: u16,
    metric: Metric,
    dims: usize,
    sh: &Shared,
    qseed: u64,
    c: &mut Counters,
) -> Result<(u64, Vec<Vec<(u32, f32)>>), String> {
    if let Some(items) = &sh.stable {
        // the bystander index is committed once and never written again: every snapshot shows it whole
        let mut m = IndexModel::new(STABLE, metric, dims);
        m.items = items.clone();
        m.has_metadata = true;
        let r = Reader::<D>::open(rtxn, STABLE, adb::<D>(db)).map_err(|e| format!("bystander index {STABLE} (built, committed, never written again; {} items) does not open on a snapshot: {e:?}", items.len()))?;
        if r.n_items() != items.len() as u64 {
            return Err(format!("bystander index {STABLE}: {} items on a snapshot, {} were committed", r.n_items(), items.len()));
        }
        let probe: Vec<u32> = m.items.keys().copied().collect();
        engine::check_store::<D>(rtxn, db, &m, &probe, true, c).map_err(|e| format!("bystander index {STABLE}: {e}"))?;
        let mut qrng = StdRng::seed_from_u64(qseed ^ 7);
        engine::check_exact::<D>(rtxn, db, &m, &mut qrng, 1, true, c).map_err(|e| format!("bystander index {STABLE}: {e}"))?;
        c.inc("bystander_snapshots");
    }
    let reader = match Reader::<D>::open(rtxn, index, adb::<D>(db)) {
        Ok(r) => r,
        Err(arroy::Error::NeedBuild(_)) => return Err(NEED_BUILD.to_string()),
        Err(e) => return Err(format!("Reader::open on a snapshot failed: {e:?}")),
    };
    let v = match reader.item_vector(rtxn, SENTINEL).map_err(|e| format!("{e:?}"))? {
        Some(sv) => decode_sentinel(&sv),
        None if sh.empty_start => 0,
        None => return Err("sentinel item missing from the snapshot".into()),
    };
    let items = sh.models.lock().unwrap().get(&v).cloned().ok_or_else(|| format!("snapshot shows version {v}, which was never handed to a commit"))?;
    let mut m = IndexModel::new(index, metric, dims);
    m.items = items;
    m.has_metadata = true;
    let probe: Vec<u32> = m.items.keys().copied().take(8).collect();
    engine::check_store::<D>(rtxn, db, &m, &probe, true, c).map_err(|e| format!("snapshot of version {v}: {e}"))?;
    let d = rawdb::dump_of_index(&rawdb::dump(rtxn, db)?, index);
    let decl = |i: u16| if i == index { Some((metric, dims)) } else { None };
    let dec = rawdb::decode(&d, &decl).map_err(|e| format!("snapshot of version {v} does not decode: {e}"))?.remove(&index).unwrap_or_default();
    forest::check_forest(&dec, dims, metric.disk_name()).map_err(|e| format!("snapshot of version {v}: {e}"))?;
    let mut qrng = StdRng::seed_from_u64(qseed);
    engine::check_exact::<D>(rtxn, db, &m, &mut qrng, 2, true, c).map_err(|e| format!("snapshot of version {v}: {e}"))?;
    // answers that must not change while the snapshot is held
    let mut qrng = StdRng::seed_from_u64(qseed ^ 1);
    let mut answers = Vec::new();
    for _ in 0..2 {
        let q: Vec<f32> = (0..dims).map(|_| qrng.gen_range(-1.0f32..1.0)).collect();
        let r = reader.nns(7).by_vector(rtxn, &q).map_err(|e| format!("{e:?}"))?;
        answers.push(r);
    }
    Ok((v, answers))
}

fn reader_loop<D: Distance>(world: &World, index: u16, metric: Metric, dims: usize, sh: &Shared, seed: u64, light: bool) -> ReaderStats {
    let mut rng = StdRng::seed_from_u64(seed);
    let mut st = ReaderStats { c: Counters::default(), sigs: BTreeSet::new() };
    while !sh.stop.load(Ordering::SeqCst) {
        nap(&mut rng);
        if light {
            // leave long gaps without any read transaction so that LMDB recycles freed pages
            std::thread::sleep(std::time::Duration::from_micros(rng.gen_range(200..3000)));
        }
        let c0 = sh.committed.load(Ordering::SeqCst);
        let cleared0 = sh.stage_cleared.load(Ordering::SeqCst);
        let phase = sh.phase.load(Ordering::SeqCst);
        let rtxn = match world.env.read_txn() {
            Ok(t) => t,
            Err(e) => {
                fail(sh, format!("read_txn failed: {e:?}"));
                break;
            }
        };
        let qseed = rng.gen();
        let r = guarded(|| check_snapshot::<D>(&rtxn, world.db, index, metric, dims, sh, qseed, &mut st.c)).unwrap_or_else(|p| Err(format!("panic while reading a snapshot: {p}")));
        let c1 = sh.commit_started.load(Ordering::SeqCst);
        let staged1 = sh.stage_started.load(Ordering::SeqCst);
        let (v, answers) = match r {
            Ok(x) => x,
            Err(e) if e == NEED_BUILD => {
                // legitimate iff a staged commit can be what this snapshot shows: one that began before the
                // snapshot was looked at and that no built commit had covered before the snapshot was taken
                if staged1 > cleared0 {
                    st.c.inc("snapshots_of_a_staged_state_refused");
                    continue;
                }
                fail(sh, format!("reader (writer phase {phase} at open, committed={c0}): Reader::open says NeedBuild although every staged commit so far ({staged1}) had been covered by a built commit before the snapshot was taken ({cleared0})"));
                break;
            }
            Err(e) => {
                fail(sh, format!("reader (writer phase {phase} at open, committed={c0}): {e}"));
                break;
            }
        };
        if v < c0 || v > c1 {
            fail(sh, format!("snapshot opened after version {c0} was committed shows version {v}; commits started up to {c1}: it must lie in [{c0}, {c1}]"));
            break;
        }
        st.c.inc("snapshots");
        st.c.inc(&format!("snapshots_writer_phase_{}", ["idle", "adding", "building", "committing", "aborting"][phase as usize]));
        st.sigs.insert(mix(v << 8 | phase));
        // hold the snapshot across later commits
        if !light && rng.gen_bool(0.3) {
            let t0 = std::time::Instant::now();
            while sh.committed.load(Ordering::SeqCst) <= c1 && !sh.stop.load(Ordering::SeqCst) && t0.elapsed().as_millis() < 400 {
                std::thread::sleep(std::time::Duration::from_micros(500));
            }
            let advanced = sh.committed.load(Ordering::SeqCst).saturating_sub(v);
            let r2 = guarded(|| check_snapshot::<D>(&rtxn, world.db, index, metric, dims, sh, qseed, &mut st.c)).unwrap_or_else(|p| Err(format!("panic: {p}")));
            match r2 {
                Ok((v2, a2)) => {
                    let same = v2 == v
                        && a2.len() == answers.len()
                        && a2.iter().zip(&answers).all(|(x, y)| x.len() == y.len() && x.iter().zip(y).all(|(p, q)| p.0 == q.0 && p.1.to_bits() == q.1.to_bits()));
                    if !same {
                        fail(sh, format!("a held snapshot changed: version {v} -> {v2} after {advanced} later commits (or its query answers changed)"));
                        break;
                    }
                    if advanced > 0 {
                        st.c.inc("snapshots_held_across_commits");
                        st.c.add("commits_crossed_while_held", advanced);
                    }
                }
                Err(e) => {
                    fail(sh, format!("held snapshot of version {v} after {advanced} later commits: {e}"));
                    break;
                }
            }
        }
    }
    st
}

fn writer_loop<D: Distance>(world: &World, index: u16, metric: Metric, dims: usize, sh: &Shared, seed: u64, versions: u64, steady: bool, c: &mut Counters) {
    let mut rng = StdRng::seed_from_u64(seed ^ 0xABCD);
    let mut committed_model: Items = sh.models.lock().unwrap().get(&0).cloned().unwrap();
    let mut v = 0u64;
    let mut staged_pending = false;
    let mut stagings = 0u64;
    let _ = pool(1);
    // a service keeps one Writer for the life of the index: hidden state in it must follow commits and aborts
    let long_lived = seed & 0x200 != 0;
    // half of the cases configure a temp directory: whatever an aborted or cancelled build leaves there must not
    // find its way into the next transaction
    let tmp = if seed & 0x2000 != 0 { Some(tempfile::tempdir_in(engine::scratch_root()).unwrap()) } else { None };
    if tmp.is_some() {
        c.inc("cases_with_configured_tmpdir");
    }
    let mut kept = Writer::<D>::new(adb::<D>(world.db), index, dims);
    if let Some(t) = &tmp {
        kept.set_tmpdir(t.path());
    }
    c.inc(if long_lived { "cases_with_long_lived_writer" } else { "cases_with_fresh_writers" });
    while v < versions && !sh.stop.load(Ordering::SeqCst) {
        v += 1;
        let pre = {
            let rtxn = world.env.read_txn().unwrap();
            rawdb::dump(&rtxn, world.db).unwrap()
        };
        sh.phase.store(1, Ordering::SeqCst);
        let mut wtxn = world.env.write_txn().unwrap();
        let mut model = committed_model.clone();
        let mut fresh;
        let w: &Writer<D> = if long_lived {
            &kept
        } else {
            fresh = Writer::<D>::new(adb::<D>(world.db), index, dims);
            if let Some(t) = &tmp {
                fresh.set_tmpdir(t.path());
            }
            &fresh
        };
        // "swap" versions keep the number of items (and hence the size of every serialized id set)
        // constant while changing its content: freed pages get recycled with same-shaped data
        let swap_version = (steady || rng.gen_bool(0.4)) && model.len() > 3;
        if swap_version {
            for _ in 0..rng.gen_range(1..4) {
                let victim = *model.keys().filter(|k| **k != SENTINEL).nth(rng.gen_range(0..model.len() - 1)).unwrap();
                let _ = w.del_item(&mut wtxn, victim);
                model.remove(&victim);
                let fresh_id = loop {
                    let id = rng.gen_range(0..400u32);
                    if !model.contains_key(&id) {
                        break id;
                    }
                };
                let vec: Vec<f32> = (0..dims).map(|_| rng.gen_range(-1.0f32..1.0)).collect();
                w.add_item(&mut wtxn, fresh_id, &vec).unwrap();
                model.insert(fresh_id, vec);
            }
            c.inc("swap_versions");
        }
        // a staged commit: the updates are committed without a build (bulk loaders do that); until the next
        // built commit the index must refuse to open. The first transaction on an empty start is one, and
        // it loads through append_item.
        let first_load = sh.empty_start && committed_model.is_empty();
        let stage = first_load || (!steady && !swap_version && stagings < versions && rng.gen_bool(0.12));
        let n_ops = if swap_version { 0 } else { rng.gen_range(1..30) };
        for k in 0..n_ops {
            let id = if first_load { k as u32 * 3 } else { rng.gen_range(0..120u32) };
            if !first_load && rng.gen_bool(0.3) {
                let _ = w.del_item(&mut wtxn, id);
                model.remove(&id);
            } else {
                let vec: Vec<f32> = (0..dims).map(|_| rng.gen_range(-1.0f32..1.0)).collect();
                if first_load {
                    match w.append_item(&mut wtxn, id, &vec) {
                        Ok(()) => c.inc("staged_appends"),
                        Err(_) => w.add_item(&mut wtxn, id, &vec).unwrap(),
                    }
                } else {
                    w.add_item(&mut wtxn, id, &vec).unwrap();
                }
                model.insert(id, vec);
            }
            if rng.gen_bool(0.1) {
                nap(&mut rng);
            }
        }
        if stage {
            // make sure the staged state differs from the version before it
            let id = 200 + (stagings % 50) as u32;
            let vec: Vec<f32> = (0..dims).map(|_| rng.gen_range(-1.0f32..1.0)).collect();
            if first_load {
                w.append_item(&mut wtxn, id, &vec).unwrap_or_else(|_| w.add_item(&mut wtxn, id, &vec).unwrap());
            } else {
                w.add_item(&mut wtxn, id, &vec).unwrap();
            }
            model.insert(id, vec);
            stagings += 1;
            v -= 1;
            sh.stage_started.fetch_add(1, Ordering::SeqCst);
            sh.phase.store(3, Ordering::SeqCst);
            nap(&mut rng);
            if let Err(e) = wtxn.commit() {
                fail(sh, format!("staged commit failed: {e:?}"));
                return;
            }
            committed_model = model;
            staged_pending = true;
            c.inc("staged_commits");
            sh.phase.store(0, Ordering::SeqCst);
            nap(&mut rng);
            continue;
        }
        if sh.stable.is_some() {
            let nw = Writer::<D>::new(adb::<D>(world.db), NOISE, dims);
            match rng.gen_range(0..20) {
                0..=7 => {
                    for _ in 0..rng.gen_range(1..4) {
                        let vec: Vec<f32> = (0..dims).map(|_| rng.gen_range(-1.0f32..1.0)).collect();
                        nw.add_item(&mut wtxn, rng.gen_range(0..40u32), &vec).unwrap();
                    }
                    c.inc("noise_index_staged");
                }
                8..=9 => {
                    let mut r = StdRng::seed_from_u64(v);
                    let _ = nw.builder(&mut r).n_trees(1).build(&mut wtxn);
                    c.inc("noise_index_built");
                }
                10 => {
                    let _ = nw.clear(&mut wtxn);
                    c.inc("noise_index_cleared");
                }
                _ => {}
            }
        }
        let sv = sentinel_vec(dims, v);
        w.add_item(&mut wtxn, SENTINEL, &sv).unwrap();
        model.insert(SENTINEL, sv);
        nap(&mut rng);
        sh.phase.store(2, Ordering::SeqCst);
        let opts = BuildOpts {
            // steady cases keep the shape of everything constant from version to version
            n_trees: Some(if steady { 2 } else { rng.gen_range(1..5) }),
            split_after: Some(if steady { 60 } else { rng.gen_range(2..10) }),
            memory: None,
            threads: [1usize, 2, 4][rng.gen_range(0..3)],
            rng_seed: rng.gen(),
        };
        let fate = if steady { 5 } else { rng.gen_range(0..10) };
        let cancel_at = if fate == 0 { Some(rng.gen_range(0..400)) } else { None };
        #[cfg(arroy_verif)]
        arroy::verif::chaos_arm(opts.rng_seed | 1, 25);
        let r = crate::props::c10::build_on::<D>(&mut wtxn, w, &opts, cancel_at);
        #[cfg(arroy_verif)]
        arroy::verif::chaos_arm(0, 0);
        nap(&mut rng);
        let ok = matches!(r.outcome, Outcome::Ok);
        if let Outcome::Panic(p) = &r.outcome {
            fail(sh, format!("build of version {v} panicked: {p}"));
            return;
        }
        if ok && fate != 1 {
            // publish the model before the commit can become visible
            sh.models.lock().unwrap().insert(v, model.clone());
            sh.commit_started.store(v, Ordering::SeqCst);
            sh.phase.store(3, Ordering::SeqCst);
            nap(&mut rng);
            if let Err(e) = wtxn.commit() {
                fail(sh, format!("commit of version {v} failed: {e:?}"));
                return;
            }
            sh.committed.store(v, Ordering::SeqCst);
            if staged_pending {
                // every staged commit so far is now covered by a built one
                sh.stage_cleared.store(stagings, Ordering::SeqCst);
                staged_pending = false;
            }
            committed_model = model;
            c.inc("versions_committed");
        } else {
            // abort: after a successful build (fate 1), or after a cancelled / failed one
            sh.phase.store(4, Ordering::SeqCst);
            nap(&mut rng);
            wtxn.abort();
            c.inc(if ok { "aborts_after_successful_build" } else { "aborts_after_cancelled_build" });
            let rtxn = world.env.read_txn().unwrap();
            let post = rawdb::dump(&rtxn, world.db).unwrap();
            if let Some(d) = rawdb::first_diff(&pre, &post) {
                fail(sh, format!("aborted transaction of version {v} left a trace: {d}"));
                return;
            }
            c.inc("abort_dumps_compared");
        }
        sh.phase.store(0, Ordering::SeqCst);
        nap(&mut rng);
    }
}

fn run_case<D: Distance>(cs: u64, metric: Metric, dims: usize, index: u16, n_readers: usize, versions: u64, c: &mut Counters, sigs: &mut BTreeSet<u64>) -> Result<(), String> {
    let world = World::new(512 << 20, false);
    let mut rng = StdRng::seed_from_u64(cs);
    // version 0: an initial built index, committed before any reader starts; in a quarter of the cases
    // without a bystander it is an empty built index that is then bulk-loaded
    let empty_start = cs & 0x400 == 0 && cs & 0x1000 != 0;
    let mut m0: Items = BTreeMap::new();
    if empty_start {
        let mut wtxn = world.env.write_txn().unwrap();
        let w = Writer::<D>::new(adb::<D>(world.db), index, dims);
        let mut r = StdRng::seed_from_u64(1);
        w.builder(&mut r).build(&mut wtxn).map_err(|e| format!("{e:?}"))?;
        wtxn.commit().unwrap();
        c.inc("cases_starting_from_an_empty_built_index");
    } else {
        let mut wtxn = world.env.write_txn().unwrap();
        let w = Writer::<D>::new(adb::<D>(world.db), index, dims);
        for id in 0..50u32 {
            let vec: Vec<f32> = (0..dims).map(|_| rng.gen_range(-1.0f32..1.0)).collect();
            w.add_item(&mut wtxn, id, &vec).unwrap();
            m0.insert(id, vec);
        }
        let sv = sentinel_vec(dims, 0);
        w.add_item(&mut wtxn, SENTINEL, &sv).unwrap();
        m0.insert(SENTINEL, sv);
        let mut r = StdRng::seed_from_u64(1);
        w.builder(&mut r).n_trees(2).split_after(5).build(&mut wtxn).map_err(|e| format!("{e:?}"))?;
        wtxn.commit().unwrap();
    }
    // half of the cases share the environment with a bystander index (empty in half of those)
    let stable: Option<Items> = if cs & 0x400 != 0 && index != STABLE && index != NOISE {
        let mut items: Items = BTreeMap::new();
        let mut wtxn = world.env.write_txn().unwrap();
        let w = Writer::<D>::new(adb::<D>(world.db), STABLE, dims);
        if cs & 0x800 != 0 {
            for id in 0..6u32 {
                let vec: Vec<f32> = (0..dims).map(|_| rng.gen_range(-1.0f32..1.0)).collect();
                w.add_item(&mut wtxn, id * 3, &vec).unwrap();
                items.insert(id * 3, vec);
            }
        }
        let mut r = StdRng::seed_from_u64(2);
        w.builder(&mut r).n_trees(2).split_after(3).build(&mut wtxn).map_err(|e| format!("{e:?}"))?;
        wtxn.commit().unwrap();
        c.inc(if items.is_empty() { "cases_with_empty_bystander" } else { "cases_with_bystander" });
        Some(items)
    } else {
        None
    };
    let sh = Shared {
        stable,
        stage_started: AtomicU64::new(0),
        stage_cleared: AtomicU64::new(0),
        empty_start,
        models: Mutex::new([(0u64, m0)].into_iter().collect()),
        commit_started: AtomicU64::new(0),
        committed: AtomicU64::new(0),
        phase: AtomicU64::new(0),
        stop: AtomicBool::new(false),
        failure: Mutex::new(None),
    };
    let mut wc = Counters::default();
    // a third of the cases: a single reader that never holds its snapshot (page recycling)
    let light = cs % 3 == 0;
    let n_readers = if light { 1 } else { n_readers };
    wc.inc(if light { "cases_light_readers" } else { "cases_holding_readers" });
    let stats: Vec<ReaderStats> = std::thread::scope(|s| {
        let hs: Vec<_> = (0..n_readers)
            .map(|r| {
                let sh = &sh;
                let world = &world;
                s.spawn(move || reader_loop::<D>(world, index, metric, dims, sh, mix(cs ^ r as u64), light))
            })
            .collect();
        writer_loop::<D>(&world, index, metric, dims, &sh, cs, versions, light, &mut wc);
        // let the readers look at the final state for a moment
        std::thread::sleep(std::time::Duration::from_millis(5));
        sh.stop.store(true, Ordering::SeqCst);
        hs.into_iter().map(|h| h.join().expect("reader thread panicked")).collect()
    });
    for (k, v) in &wc.0 {
        c.add(k, *v);
    }
    for st in stats {
        for (k, v) in &st.c.0 {
            c.add(k, *v);
        }
        sigs.extend(st.sigs);
    }
    if let Some(f) = sh.failure.lock().unwrap().take() {
        return Err(f);
    }
    Ok(())
}

pub fn run(args: &Args) {
    let seed = args.get_u64("seed", 0);
    let shard = args.get_u64("shard", 0);
    let nshards = args.get_u64("nshards", 1);
    let thorough = args.get("tier") == Some("thorough");
    let cases = args.get_u64("cases", if thorough { 1600 } else { 160 });
    let versions = args.get_u64("versions", if thorough { 160 } else { 50 });
    let replay = args.kv.get("replay").map(|s| crate::parse_u64(s));
    engine::install_quiet_panic_hook();
    let mut c = Counters::default();
    let mut sigs: BTreeSet<u64> = BTreeSet::new();
    let mut samples = Vec::new();
    let t0 = std::time::Instant::now();
    for i in (0..cases).filter(|i| i % nshards == shard) {
        let cs = case_seed(seed, "C08", i);
        if replay.map_or(false, |r| r != cs) {
            continue;
        }
        let mut rng = StdRng::seed_from_u64(cs);
        let metric = ALL_METRICS[rng.gen_range(0..7)];
        let dims = [16usize, 33, 64][rng.gen_range(0..3)];
        let index = [0u16, 1, 65535, 4242][rng.gen_range(0..4)];
        let n_readers = args.get_u64("readers", [2u64, 4, 6][rng.gen_range(0..3)]) as usize;
        line(&format!("BEGIN {cs:#x}"));
        if samples.len() < 2 {
            samples.push(J::obj().set("metric", J::s(metric.short())).set("dims", J::i(dims as u64)).set("index", J::i(index as u64)).set("reader_threads", J::i(n_readers as u64)).set("writer_versions", J::i(versions)));
        }
        let r = with_metric!(metric, D, run_case::<D>(cs, metric, dims, index, n_readers, versions, &mut c, &mut sigs));
        c.inc("cases");
        match r {
            Ok(()) => line(&format!("END {cs:#x} ok")),
            Err(msg) => {
                c.inc("violations");
                emit("VIOL", &J::obj().set("property", J::s("C08")).set("case_seed", J::s(format!("{cs:#x}"))).set("key", J::s("snapshot")).set("step", J::i(0)).set("msg", J::s(msg)));
                line(&format!("END {cs:#x} violation"));
            }
        }
    }
    let j = J::obj()
        .set("property", J::s("C08"))
        .set("counters", c.to_json())
        .set("sigs", J::Arr(sigs.iter().map(|s| J::s(format!("{s:x}"))).collect()))
        .set("samples", J::Arr(samples))
        .set("rule", J::s("case = one environment, one writer thread producing versions (1-30 updates + sentinel + build in a local rayon pool of 1-4 threads with seeded noise at hook points, then commit; or abort after a successful or cancelled build; or a staged commit without a build, after which the index must refuse to open until the next built commit — a reader may get NeedBuild only while such a commit can be what its snapshot shows; a quarter of the cases without bystander start from an empty built index that is bulk-loaded through append_item in a staged commit) and 2-6 reader threads opening snapshots at random moments; half of the cases configure a temp directory on the Writer; in half of the cases the environment also holds a bystander index (built once, empty or 6 items, never written again; every snapshot must show it whole) followed in key order by a noise index the writer stages items into, builds and clears inside the same transactions; each snapshot is identified by its sentinel, must lie between the last commit that returned before the open and the last commit started, and is compared as a whole with that version's model (ids, vectors, C01 walker on a raw dump through the same read txn, exact queries), again after holding it across later commits; non-trivial+distinct = distinct (version observed, writer phase at open) pairs"))
        .set("required", J::Arr(["snapshots", "snapshots_writer_phase_building", "snapshots_writer_phase_committing", "snapshots_held_across_commits", "swap_versions", "cases_with_configured_tmpdir", "staged_commits", "staged_appends", "snapshots_of_a_staged_state_refused", "bystander_snapshots", "cases_with_empty_bystander", "noise_index_staged", "cases_light_readers", "versions_committed", "aborts_after_successful_build", "aborts_after_cancelled_build", "abort_dumps_compared"].iter().map(|s| J::s(*s)).collect()))
        .set("wall_s", J::Num(t0.elapsed().as_secs_f64()));
    emit("SUMMARY", &j);
}
