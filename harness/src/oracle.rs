//! f64 definitions of the 7 metrics with rounding-error bounds, and a tie-immune top-k comparison
//! (DESIGN.md §2.5). Works only from the vectors the harness itself wrote (the shadow model).

use std::collections::BTreeMap;

use roaring::RoaringBitmap;

use crate::metric::Metric;

/// Oracle distance of one stored vector to the query, as arroy is specified to report it.
#[derive(Clone, Copy, Debug)]
pub struct OracleDist {
    /// value arroy should report
    pub d: f64,
    /// |reported - d| must be <= tol
    pub tol: f64,
    /// false when the inputs are outside the range where a rounding bound is meaningful
    /// (non-finite components, overflow / underflow territory): only structural clauses apply
    pub accurate: bool,
    /// for Cosine: reporting exactly 0 is also acceptable (norm product near the EPSILON guard)
    pub zero_ok: bool,
}

const U: f64 = 1.1920928955078125e-7; // 2^-23

pub fn sign_pos(x: f32) -> bool {
    x.is_sign_positive()
}

/// What a vector written as `w` must read back as under `metric` (C05 / C12).
/// f32 -> f64 that does not depend on the thread's floating-point control register: with
/// "denormals are zero" set (a callee that changes MXCSR and does not restore it), `x as f64`
/// turns a subnormal into 0 and the oracle would go blind together with the code under test.
#[inline]
pub fn wide(x: f32) -> f64 {
    let b = x.to_bits();
    if b & 0x7f80_0000 != 0 {
        return x as f64;
    }
    let m = (b & 0x007f_ffff) as f64 * f64::from_bits(0x36A0_0000_0000_0000); // * 2^-149
    if b >> 31 == 1 {
        -m
    } else {
        m
    }
}

pub fn expected_readback(metric: Metric, w: &[f32]) -> Vec<f32> {
    if metric.is_bq() {
        w.iter().map(|x| if sign_pos(*x) { 1.0 } else { -1.0 }).collect()
    } else {
        w.to_vec()
    }
}

pub fn hamming(q: &[f32], v: &[f32]) -> usize {
    q.iter().zip(v).filter(|(a, b)| sign_pos(**a) != sign_pos(**b)).count()
}

pub fn distance(metric: Metric, q: &[f32], v: &[f32]) -> OracleDist {
    let n = q.len();
    assert_eq!(n, v.len());
    let nf = n as f64;
    if metric.is_bq() {
        let h = hamming(q, v) as f64;
        let d = match metric {
            Metric::BqEuclidean => 4.0 * h / nf,
            Metric::BqManhattan => 2.0 * h / nf,
            Metric::BqCosine => h / (n.div_ceil(64) * 64) as f64,
            _ => unreachable!(),
        };
        // Euclidean / Manhattan: one integer-valued f32 divided by the dimension (one rounding).
        // Cosine goes through fl(sqrt(L))^2 and a division: absolute error up to a few 2^-24.
        let tol = if metric == Metric::BqCosine { 4.0 * U } else { d.abs() * 8.0 * U + 1e-9 };
        return OracleDist { d, tol, accurate: true, zero_ok: false };
    }
    let finite = q.iter().chain(v.iter()).all(|x| x.is_finite());
    if !finite {
        return OracleDist { d: f64::NAN, tol: f64::INFINITY, accurate: false, zero_ok: false };
    }
    let rel = (nf + 8.0) * U;
    let tiny = nf * 2f64.powi(-140);
    match metric {
        Metric::Euclidean => {
            let mut s = 0f64;
            for (a, b) in q.iter().zip(v) {
                let t = wide(*a) - wide(*b);
                s += t * t;
            }
            let e = rel * s + tiny;
            let lo = (s - e).max(0.0).sqrt() * (1.0 - 2.0 * U);
            let hi = (s + e).sqrt() * (1.0 + 2.0 * U);
            let d = s.sqrt();
            let accurate = s < 1e37;
            OracleDist { d, tol: (hi - d).max(d - lo), accurate, zero_ok: false }
        }
        Metric::Manhattan => {
            let mut s = 0f64;
            for (a, b) in q.iter().zip(v) {
                s += (wide(*a) - wide(*b)).abs();
            }
            OracleDist { d: s, tol: rel * s + tiny, accurate: s < 1e37, zero_ok: false }
        }
        Metric::DotProduct => {
            let mut s = 0f64;
            let mut sa = 0f64;
            for (a, b) in q.iter().zip(v) {
                let t = wide(*a) * wide(*b);
                s += t;
                sa += t.abs();
            }
            OracleDist { d: s, tol: rel * sa + tiny, accurate: sa < 1e37, zero_ok: false }
        }
        Metric::Cosine => {
            let (mut pq, mut pp, mut qq) = (0f64, 0f64, 0f64);
            for (a, b) in q.iter().zip(v) {
                pq += wide(*a) * wide(*b);
                pp += wide(*a) * wide(*a);
                qq += wide(*b) * wide(*b);
            }
            let pnqn = (pp * qq).sqrt();
            let eps = f32::EPSILON as f64;
            let band = (nf + 20.0) * 2.0 * U;
            // below the guard: exactly 0
            if pnqn <= eps * (1.0 - band) {
                return OracleDist { d: 0.0, tol: 0.0, accurate: true, zero_ok: true };
            }
            let cos = (pq / pnqn).clamp(-1.0, 1.0);
            let d = (1.0 - cos) / 2.0;
            // under/overflow of the f32 norms makes the f32 result meaningless for a rounding bound
            let accurate = pp > 1e-28 && qq > 1e-28 && pp < 1e37 && qq < 1e37;
            let zero_ok = pnqn <= eps * (1.0 + band);
            OracleDist { d, tol: (nf + 20.0) * U, accurate, zero_ok }
        }
        _ => unreachable!(),
    }
}

/// true when `reported` is an acceptable value for `o`
pub fn dist_ok(o: &OracleDist, reported: f32) -> bool {
    if !o.accurate {
        return true;
    }
    let r = wide(reported);
    if o.zero_ok && r == 0.0 {
        return true;
    }
    (r - o.d).abs() <= o.tol
}

/// Key such that "nearer" = smaller.
pub fn rank_key(metric: Metric, d: f64) -> f64 {
    if metric == Metric::DotProduct {
        -d
    } else {
        d
    }
}

pub struct TopkSpec<'a> {
    pub metric: Metric,
    pub query: &'a [f32],
    pub stored: &'a BTreeMap<u32, Vec<f32>>,
    pub filter: Option<&'a RoaringBitmap>,
    pub count: usize,
    /// unlimited budget: the result must be the exact top-k
    pub exact: bool,
    /// check the accuracy of reported distances (off for degenerate data, C20)
    pub accuracy: bool,
}

/// Tie-immune comparison of a query result with the model. Returns a description of the first
/// clause that fails.
pub fn check_topk(spec: &TopkSpec, result: &[(u32, f32)]) -> Result<(), String> {
    let eligible: Vec<u32> = match spec.filter {
        None => spec.stored.keys().copied().collect(),
        Some(f) => spec.stored.keys().copied().filter(|id| f.contains(*id)).collect(),
    };
    if result.len() > spec.count {
        return Err(format!("{} results for count={}", result.len(), spec.count));
    }
    if spec.exact {
        let want = spec.count.min(eligible.len());
        if result.len() != want {
            return Err(format!(
                "unlimited budget returned {} results, expected min(count={}, eligible items={}) = {want}",
                result.len(),
                spec.count,
                eligible.len()
            ));
        }
    }
    let mut seen = std::collections::BTreeSet::new();
    let mut worst_key = f64::NEG_INFINITY;
    let mut worst_tol = 0f64;
    let mut any_inaccurate = false;
    for (id, rep) in result {
        if !seen.insert(*id) {
            return Err(format!("item {id} returned twice"));
        }
        let v = spec.stored.get(id).ok_or_else(|| format!("item {id} returned but not stored (deleted or never written)"))?;
        if let Some(f) = spec.filter {
            if !f.contains(*id) {
                return Err(format!("item {id} returned although outside the candidate filter"));
            }
        }
        let o = distance(spec.metric, spec.query, v);
        if !o.accurate {
            any_inaccurate = true;
        }
        if spec.accuracy && !dist_ok(&o, *rep) {
            return Err(format!(
                "item {id} reported at distance {rep:e}, the metric's definition gives {:e} (tolerance {:e})",
                o.d, o.tol
            ));
        }
        // inside the band around Cosine's zero guard (|p||q| ~ f32::EPSILON) both outcomes are legitimate; when the
        // crate took the guard (reported exactly 0) that item ranks as a distance of 0, not as its cosine
        let k = if o.zero_ok && wide(*rep) == 0.0 { rank_key(spec.metric, 0.0) } else { rank_key(spec.metric, o.d) };
        if o.accurate && k > worst_key {
            worst_key = k;
            worst_tol = o.tol;
        }
    }
    // order: monotone in the reported distance; an undefined (NaN) distance is "unknown", i.e. never
    // nearer than a defined one: such results come last (arroy's total order on scores)
    let reps: Vec<f32> = result.iter().map(|r| r.1).collect();
    let first_nan = reps.iter().position(|r| r.is_nan()).unwrap_or(reps.len());
    if let Some(k) = reps[first_nan..].iter().position(|r| !r.is_nan()) {
        return Err(format!(
            "results not ordered nearest first: an undefined (NaN) distance at rank {first_nan} is ranked before the defined distance {:e} at rank {}",
            reps[first_nan + k],
            first_nan + k
        ));
    }
    for w in reps[..first_nan].windows(2) {
        let bad = if spec.metric == Metric::DotProduct { w[0] < w[1] } else { w[0] > w[1] };
        if bad {
            return Err(format!("results not ordered nearest first: {:e} before {:e}", w[0], w[1]));
        }
    }
    // exactness: nothing left out is closer than the worst returned
    if spec.exact && spec.accuracy && !any_inaccurate && result.len() < eligible.len() && !result.is_empty() {
        for id in &eligible {
            if seen.contains(id) {
                continue;
            }
            let o = distance(spec.metric, spec.query, &spec.stored[id]);
            if !o.accurate {
                continue;
            }
            let k = rank_key(spec.metric, o.d);
            if k + o.tol + worst_tol < worst_key {
                return Err(format!(
                    "item {id} (distance {:e}) is closer than the worst returned result (key {:e}) but was left out",
                    o.d, worst_key
                ));
            }
        }
    }
    Ok(())
}
