//! History explorer (DESIGN.md §2.1): generates configurations and histories, applies them to the
//! real arroy + heed + LMDB and to the shadow model, and runs the monitors a profile enables.

use std::collections::{BTreeMap, HashMap};
use std::num::NonZeroUsize;
use std::panic::{catch_unwind, AssertUnwindSafe};
use std::sync::atomic::{AtomicU64, Ordering};
use std::sync::Mutex;

use arroy::{Distance, Reader, Writer};
use heed::{Env, EnvFlags, EnvOpenOptions, RoTxn, RwTxn, WithTls};
use rand::rngs::StdRng;
use rand::seq::SliceRandom;
use rand::{Rng, SeedableRng};
use roaring::RoaringBitmap;

use crate::forest::{self, ForestStats};
use crate::metric::{Metric, ALL_METRICS};
use crate::oracle::{self, TopkSpec};
use crate::rawdb::{self, Dump, RawDb, RawIndex};
use crate::util::{fmt_f32s, Counters, J};
use crate::with_metric;

// ------------------------------------------------------------------------------------------------
// world

pub struct World {
    pub env: Env<WithTls>,
    pub db: RawDb,
    pub dir: tempfile::TempDir,
}

pub fn scratch_root() -> std::path::PathBuf {
    if let Ok(p) = std::env::var("VERIF_SCRATCH") {
        return p.into();
    }
    let shm = std::path::Path::new("/dev/shm");
    if shm.is_dir() {
        shm.to_path_buf()
    } else {
        std::env::temp_dir()
    }
}

impl World {
    pub fn new(map_size: usize, sync: bool) -> World {
        let dir = tempfile::Builder::new().prefix("arroy-verif-").tempdir_in(scratch_root()).unwrap();
        let mut o = EnvOpenOptions::new();
        o.map_size(map_size);
        o.max_readers(64);
        if !sync {
            unsafe { o.flags(EnvFlags::NO_SYNC | EnvFlags::NO_META_SYNC) };
        }
        let env = unsafe { o.open(dir.path()) }.unwrap();
        let mut wtxn = env.write_txn().unwrap();
        let db: RawDb = env.create_database(&mut wtxn, None).unwrap();
        wtxn.commit().unwrap();
        World { env, db, dir }
    }
}

pub fn adb<D: Distance>(db: RawDb) -> arroy::Database<D> {
    db.remap_types()
}

// ------------------------------------------------------------------------------------------------
// panic capture

static LAST_PANIC: Mutex<Option<String>> = Mutex::new(None);

pub fn install_quiet_panic_hook() {
    std::panic::set_hook(Box::new(|info| {
        let loc = info.location().map(|l| format!("{}:{}", l.file(), l.line())).unwrap_or_default();
        let msg = if let Some(s) = info.payload().downcast_ref::<&str>() {
            s.to_string()
        } else if let Some(s) = info.payload().downcast_ref::<String>() {
            s.clone()
        } else {
            "<non-string panic>".to_string()
        };
        let mut g = LAST_PANIC.lock().unwrap_or_else(|e| e.into_inner());
        if g.is_none() {
            *g = Some(format!("{msg} @ {loc}"));
        }
    }));
}

/// Runs `f`, turning a panic into Err(description with location).
pub fn guarded<T>(f: impl FnOnce() -> T) -> Result<T, String> {
    {
        *LAST_PANIC.lock().unwrap_or_else(|e| e.into_inner()) = None;
    }
    match catch_unwind(AssertUnwindSafe(f)) {
        Ok(v) => Ok(v),
        Err(_) => {
            let m = LAST_PANIC.lock().unwrap_or_else(|e| e.into_inner()).take();
            Err(m.unwrap_or_else(|| "panic".to_string()))
        }
    }
}

// ------------------------------------------------------------------------------------------------
// rayon pools (local, never the global one)

thread_local! {
    static POOLS: std::cell::RefCell<HashMap<usize, std::sync::Arc<rayon::ThreadPool>>> = std::cell::RefCell::new(HashMap::new());
}

pub fn pool(threads: usize) -> std::sync::Arc<rayon::ThreadPool> {
    POOLS.with(|p| {
        p.borrow_mut()
            .entry(threads)
            .or_insert_with(|| std::sync::Arc::new(rayon::ThreadPoolBuilder::new().num_threads(threads).build().unwrap()))
            .clone()
    })
}

// ------------------------------------------------------------------------------------------------
// writers: either one long-lived `Writer` per index for the whole case (as a service would keep
// it: hidden state inside a Writer must survive commits and aborts correctly) or a fresh one per call

pub struct WriterCache {
    map: HashMap<(u16, usize, usize), Box<dyn std::any::Any>>,
    pub long_lived: bool,
}

impl WriterCache {
    pub fn new(long_lived: bool) -> Self {
        WriterCache { map: HashMap::new(), long_lived }
    }
    pub fn get<D: Distance>(&mut self, db: RawDb, index: u16, metric: Metric, dims: usize, tmpdir: Option<&std::path::Path>) -> &Writer<D> {
        if !self.long_lived {
            self.map.clear();
        }
        self.map
            .entry((index, metric.idx(), dims))
            .or_insert_with(|| {
                let mut w = Writer::<D>::new(adb::<D>(db), index, dims);
                if let Some(t) = tmpdir {
                    w.set_tmpdir(t);
                }
                Box::new(w)
            })
            .downcast_ref::<Writer<D>>()
            .expect("writer type")
    }
    pub fn forget(&mut self, index: u16) {
        self.map.retain(|k, _| k.0 != index);
    }
    /// Keeps a writer handed back by arroy itself (`prepare_changing_distance`) for the following operations.
    pub fn put<D: Distance>(&mut self, index: u16, metric: Metric, dims: usize, w: Writer<D>) {
        if self.long_lived {
            self.map.insert((index, metric.idx(), dims), Box::new(w));
        }
    }
}

// ------------------------------------------------------------------------------------------------
// model

#[derive(Clone, Debug)]
pub struct IndexModel {
    pub index: u16,
    pub metric: Metric,
    pub dims: usize,
    /// id -> vector exactly as the caller wrote it
    pub items: BTreeMap<u32, Vec<f32>>,
    pub has_metadata: bool,
    pub dirty: bool,
    /// bucket capacity used by every build since the forest was last started from scratch
    /// (None = builds used different capacities, the C15 capacity clause does not apply)
    pub const_capacity: Option<usize>,
    pub capacity_mixed: bool,
    pub last_opts: Option<BuildOpts>,
    /// metric the index had before the last `prepare_changing_distance` (C18)
    pub prev_metric: Option<Metric>,
}

impl IndexModel {
    pub fn new(index: u16, metric: Metric, dims: usize) -> Self {
        IndexModel {
            index,
            metric,
            dims,
            items: BTreeMap::new(),
            has_metadata: false,
            dirty: false,
            const_capacity: None,
            capacity_mixed: false,
            last_opts: None,
            prev_metric: None,
        }
    }
    pub fn readback(&self) -> BTreeMap<u32, Vec<f32>> {
        self.items.iter().map(|(k, v)| (*k, oracle::expected_readback(self.metric, v))).collect()
    }
    fn forest_reset(&mut self) {
        self.const_capacity = None;
        self.capacity_mixed = false;
    }
}

#[derive(Clone, Debug, Default)]
pub struct Model {
    pub ix: Vec<IndexModel>,
}

impl Model {
    pub fn decl(&self) -> impl Fn(u16) -> Option<(Metric, usize)> + '_ {
        move |i| self.ix.iter().find(|m| m.index == i).map(|m| (m.metric, m.dims))
    }
}

// ------------------------------------------------------------------------------------------------
// operations

#[derive(Clone, Debug, PartialEq)]
pub struct BuildOpts {
    pub n_trees: Option<usize>,
    pub split_after: Option<usize>,
    pub memory: Option<usize>,
    pub threads: usize,
    pub rng_seed: u64,
}

impl BuildOpts {
    pub fn describe(&self) -> String {
        format!(
            "n_trees={:?} split_after={:?} memory={:?} threads={} rng={}",
            self.n_trees, self.split_after, self.memory, self.threads, self.rng_seed
        )
    }
    pub fn capacity(&self, dims: usize) -> usize {
        self.split_after.unwrap_or(dims)
    }
}

#[derive(Clone, Debug)]
pub enum Op {
    Add { ix: usize, id: u32, vec: Vec<f32> },
    Append { ix: usize, id: u32, vec: Vec<f32> },
    Del { ix: usize, id: u32 },
    Clear { ix: usize },
    Build { ix: usize, opts: BuildOpts },
    /// a build of a NEVER-BUILT index that is cancelled `extra` polls after it entered MainStep `step`
    /// (skipped when the index has been built: what a cancelled rebuild leaves in the transaction is
    /// not specified, the caller is expected to abort)
    CancelledFirstBuild { ix: usize, opts: BuildOpts, step: u8, extra: u64 },
    /// add / append / search with a vector of the wrong length
    BadLen { ix: usize, id: u32, len: usize, kind: u8 },
    ChangeMetric { ix: usize, to: Metric },
    Commit,
    Abort,
}

impl Op {
    pub fn describe(&self, m: &Model) -> String {
        let idx = |ix: &usize| m.ix.get(*ix).map(|x| x.index).unwrap_or(0);
        match self {
            Op::Add { ix, id, vec } => format!("add(index={}, id={id}, {})", idx(ix), fmt_f32s(vec)),
            Op::Append { ix, id, vec } => format!("append(index={}, id={id}, {})", idx(ix), fmt_f32s(vec)),
            Op::Del { ix, id } => format!("del(index={}, id={id})", idx(ix)),
            Op::Clear { ix } => format!("clear(index={})", idx(ix)),
            Op::Build { ix, opts } => format!("build(index={}, {})", idx(ix), opts.describe()),
            Op::CancelledFirstBuild { ix, opts, step, extra } => format!("cancelled-first-build(index={}, {}, cancel {extra} polls into step {step})", idx(ix), opts.describe()),
            Op::BadLen { ix, id, len, kind } => {
                format!("{}(index={}, id={id}, len={len})", ["bad-add", "bad-append", "bad-search"][*kind as usize], idx(ix))
            }
            Op::ChangeMetric { ix, to } => format!("change-metric(index={}, to={})", idx(ix), to.short()),
            Op::Commit => "commit".into(),
            Op::Abort => "abort".into(),
        }
    }
    pub fn kind(&self) -> &'static str {
        match self {
            Op::Add { .. } => "add",
            Op::Append { .. } => "append",
            Op::Del { .. } => "del",
            Op::Clear { .. } => "clear",
            Op::Build { .. } => "build",
            Op::CancelledFirstBuild { .. } => "cancelled_first_build",
            Op::BadLen { .. } => "badlen",
            Op::ChangeMetric { .. } => "change_metric",
            Op::Commit => "commit",
            Op::Abort => "abort",
        }
    }
}

// ------------------------------------------------------------------------------------------------
// profile: what is generated and which monitors are on

#[derive(Clone, Debug, Default)]
pub struct Checks {
    pub forest: bool,       // C01
    pub exact: bool,        // C02
    pub lattice: bool,      // C03
    pub routing: bool,      // C04
    pub store: bool,        // C05
    pub staleness: bool,    // C06
    pub isolation: bool,    // C07
    pub abort_clean: bool,  // C08 (abort clause)
    pub termination: bool,  // C14 / C20 logical clock
    pub options: bool,      // C15
    pub decode: bool,       // C16 (every dump parses)
    pub rejected: bool,     // C19
    pub metric_change: bool, // C18
    pub id_log: bool,        // C13 in situ
    pub chaos: bool,         // C13: seeded scheduling noise inside the parallel part of a build
    pub build_must_succeed: bool,
    /// distance-accuracy clause of the query checks (off for degenerate data)
    pub accuracy: bool,
}

#[derive(Clone, Copy, Debug, PartialEq)]
pub enum Values {
    Grid,
    Uniform,
    /// uniform in [-1,1) times 10^k
    Scaled(i32),
    AllBits,
    Degenerate(u8),
    /// one magnitude per *vector*: uniform in [-1,1) times 10^k with k drawn per vector from
    /// {-9,-8,-8,-4,0,0,0,2,3,6} (and 19 when the flag is set: squared norms overflow f32)
    Mixed(bool),
    /// a tight cluster far from the origin (the first vector of the index is its centre) plus 5 % outliers
    /// around it: every split attempt is heavily unbalanced
    Clustered,
}

#[derive(Clone, Debug)]
pub struct Profile {
    pub checks: Checks,
    pub metrics: Vec<Metric>,
    pub dims: Vec<usize>,
    pub n_indexes: (usize, usize),
    pub rounds: (usize, usize),
    pub ops_per_round: (usize, usize),
    pub max_items: usize,
    pub values: Vec<Values>,
    pub n_trees: Vec<Option<usize>>,
    pub split_after: Vec<Option<usize>>,
    pub memory: Vec<Option<usize>>,
    pub threads: Vec<usize>,
    pub p_abort: f64,
    pub p_badlen: f64,
    pub p_append: f64,
    pub p_clear: f64,
    pub p_delete: f64,
    pub p_midcommit: f64,
    pub keep_opts: f64,
    pub queries_per_build: usize,
    pub change_metric: bool,
    pub sparse_ids: bool,
    /// probability that a round is a bulk load of 201..=bulk_max items (memory-batch boundaries)
    pub p_bulk: f64,
    /// probability that a later round consists of 1-4 deletions only, built with the automatic tree count
    pub p_del_only_round: f64,
    pub bulk_max: usize,
    /// probability that an add over a live id writes a same-value / different-bits variant of the stored vector
    pub p_variant_overwrite: f64,
    /// probability that a build is preceded by a cancelled build attempt (only acts on never-built indexes)
    pub p_cancelled_first_build: f64,
}

impl Profile {
    pub fn base() -> Profile {
        Profile {
            checks: Checks { accuracy: true, ..Default::default() },
            metrics: ALL_METRICS.to_vec(),
            dims: vec![1, 2, 3, 4, 5, 7, 8, 15, 16, 17, 31, 32, 33, 63, 64, 65, 100, 128, 130],
            n_indexes: (1, 1),
            rounds: (1, 5),
            ops_per_round: (0, 120),
            max_items: 400,
            values: vec![Values::Grid, Values::Uniform],
            n_trees: vec![None, Some(1), Some(2), Some(3), Some(5), Some(9), Some(20)],
            split_after: vec![None, Some(1), Some(2), Some(3), Some(7), Some(20), Some(50), Some(250)],
            memory: vec![None, None, None, Some(0), Some(3 * 4096), Some(64 * 1024), Some(1 << 20)],
            threads: vec![1, 2, 4, 8, 16],
            p_abort: 0.08,
            p_badlen: 0.0,
            p_append: 0.05,
            p_clear: 0.01,
            p_delete: 0.25,
            p_midcommit: 0.02,
            keep_opts: 0.6,
            queries_per_build: 0,
            change_metric: false,
            sparse_ids: true,
            p_bulk: 0.0,
            p_del_only_round: 0.0,
            bulk_max: 600,
            p_variant_overwrite: 0.0,
            p_cancelled_first_build: 0.0,
        }
    }
}

// ------------------------------------------------------------------------------------------------
// generation

#[derive(Clone, Copy, Debug)]
pub enum IdDist {
    Dense(u32),
    Sparse,
    Clustered,
}

pub fn gen_id(rng: &mut StdRng, d: IdDist) -> u32 {
    match d {
        IdDist::Dense(k) => rng.gen_range(0..k),
        IdDist::Sparse => {
            const SPECIAL: [u32; 10] =
                [0, 1, 255, 256, 65535, 65536, 1 << 24, 1 << 31, u32::MAX - 1, u32::MAX];
            if rng.gen_bool(0.35) {
                SPECIAL[rng.gen_range(0..SPECIAL.len())]
            } else {
                rng.gen()
            }
        }
        IdDist::Clustered => 65536u32.wrapping_add(rng.gen_range(0..80)).wrapping_sub(40),
    }
}

const SPECIAL_F32: [u32; 16] = [
    0x0000_0000, // +0
    0x8000_0000, // -0
    0x7f80_0000, // +inf
    0xff80_0000, // -inf
    0x7fc0_0000, // qNaN
    0xffc0_0000, // -qNaN
    0x7fa0_1234, // sNaN payload
    0xffff_ffff, // -NaN all ones
    0x0000_0001, // min subnormal
    0x8000_0001,
    0x007f_ffff, // max subnormal
    0x7f7f_ffff, // MAX
    0xff7f_ffff, // -MAX
    0x0080_0000, // MIN_POSITIVE
    0x3f80_0000, // 1
    0xbf80_0000, // -1
];

pub fn gen_vec(rng: &mut StdRng, dims: usize, values: Values, pool: &[Vec<f32>]) -> Vec<f32> {
    match values {
        Values::Grid => (0..dims).map(|_| rng.gen_range(-64i32..64) as f32 / 8.0).collect(),
        Values::Uniform => (0..dims).map(|_| rng.gen_range(-1.0f32..1.0)).collect(),
        Values::Scaled(k) => (0..dims).map(|_| rng.gen_range(-1.0f32..1.0) * 10f32.powi(k)).collect(),
        Values::AllBits => (0..dims)
            .map(|_| {
                if rng.gen_bool(0.4) {
                    f32::from_bits(SPECIAL_F32[rng.gen_range(0..SPECIAL_F32.len())])
                } else {
                    f32::from_bits(rng.gen())
                }
            })
            .collect(),
        Values::Degenerate(k) => crate::props::degenerate::gen_degenerate(rng, dims, k, pool),
        Values::Clustered => match pool.first() {
            None => (0..dims).map(|_| rng.gen_range(-1.0f32..1.0) * 50.0).collect(),
            Some(c) => {
                let spread = if rng.gen_bool(0.05) { 30.0 } else { 0.05 };
                c.iter().map(|x| x + rng.gen_range(-1.0f32..1.0) * spread).collect()
            }
        },
        Values::Mixed(huge) => {
            const KS: [i32; 11] = [-9, -8, -8, -4, 0, 0, 0, 2, 3, 6, 19];
            let k = KS[rng.gen_range(0..if huge { 11 } else { 10 })];
            (0..dims).map(|_| rng.gen_range(-1.0f32..1.0) * 10f32.powi(k)).collect()
        }
    }
}

/// A vector that compares equal (or nearly) to `old` as floats but differs in its bit pattern:
/// flipped signs of zeros, other NaN payloads, and at least one such change when possible.
pub fn variant_of(rng: &mut StdRng, old: &[f32]) -> Vec<f32> {
    let mut v = old.to_vec();
    let mut changed = false;
    for x in v.iter_mut() {
        if *x == 0.0 && rng.gen_bool(0.7) {
            *x = -*x;
            changed = true;
        } else if x.is_nan() && rng.gen_bool(0.7) {
            *x = f32::from_bits(x.to_bits() ^ 0x0000_0101);
            changed = true;
        }
    }
    if !changed && !v.is_empty() {
        // no zero / NaN to play with: plant a zero, then the next variant can flip it
        let k = rng.gen_range(0..v.len());
        v[k] = if rng.gen_bool(0.5) { 0.0 } else { -0.0 };
    }
    v
}

pub struct Case {
    pub seed: u64,
    pub model: Model,
    pub ops: Vec<Op>,
    pub values: Values,
    pub id_dist: IdDist,
    pub tmpdir_set: bool,
}

fn pick<T: Clone>(rng: &mut StdRng, v: &[T]) -> T {
    v[rng.gen_range(0..v.len())].clone()
}

pub fn gen_opts(rng: &mut StdRng, p: &Profile) -> BuildOpts {
    BuildOpts {
        n_trees: pick(rng, &p.n_trees),
        split_after: pick(rng, &p.split_after),
        memory: pick(rng, &p.memory),
        threads: pick(rng, &p.threads),
        rng_seed: rng.gen_range(0..1u64 << 40),
    }
}

pub fn gen_case(seed: u64, p: &Profile) -> Case {
    let mut rng = StdRng::seed_from_u64(seed);
    let n_ix = rng.gen_range(p.n_indexes.0..=p.n_indexes.1);
    const INDEXES: [u16; 6] = [0, 1, 255, 256, 65534, 65535];
    let mut used_idx: Vec<u16> = Vec::new();
    let mut model = Model::default();
    // adjacent index numbers are the interesting neighbours
    let base: u16 = if rng.gen_bool(0.5) { INDEXES[rng.gen_range(0..INDEXES.len())] } else { rng.gen() };
    for k in 0..n_ix {
        let mut idx = if k == 0 {
            base
        } else if rng.gen_bool(0.5) {
            base.wrapping_add(k as u16)
        } else if rng.gen_bool(0.5) {
            INDEXES[rng.gen_range(0..INDEXES.len())]
        } else {
            rng.gen()
        };
        while used_idx.contains(&idx) {
            idx = idx.wrapping_add(1);
        }
        used_idx.push(idx);
        model.ix.push(IndexModel::new(idx, pick(&mut rng, &p.metrics), pick(&mut rng, &p.dims)));
    }
    let values = pick(&mut rng, &p.values);
    let id_dist = if !p.sparse_ids {
        IdDist::Dense(p.max_items as u32)
    } else {
        match rng.gen_range(0..10) {
            0..=2 => IdDist::Dense(8),
            3..=5 => IdDist::Dense(40),
            6 => IdDist::Dense(p.max_items.max(2) as u32),
            7 | 8 => IdDist::Sparse,
            _ => IdDist::Clustered,
        }
    };
    let rounds = rng.gen_range(p.rounds.0..=p.rounds.1);
    let mut ops = Vec::new();
    let mut opts: Vec<BuildOpts> = (0..n_ix).map(|_| gen_opts(&mut rng, p)).collect();
    // approximate live-set tracking only to bound the size and to aim deletes at present ids
    let mut live: Vec<Vec<u32>> = vec![Vec::new(); n_ix];
    let mut pools: Vec<Vec<Vec<f32>>> = vec![Vec::new(); n_ix];
    let mut last_written: Vec<HashMap<u32, Vec<f32>>> = vec![HashMap::new(); n_ix];
    for round in 0..rounds {
        if p.p_bulk > 0.0 && rng.gen_bool(p.p_bulk) {
            // bulk load: more than the 200-item minimum batch, so that memory hints cut batches
            let ix = rng.gen_range(0..n_ix);
            let dims = model.ix[ix].dims;
            let n = rng.gen_range(201..=p.bulk_max.max(202));
            let base: u32 = match id_dist {
                IdDist::Sparse => rng.gen_range(0..u32::MAX - 4096),
                IdDist::Clustered => 65536 - 100,
                IdDist::Dense(_) => 0,
            };
            for k in 0..n as u32 {
                let id = base + k * rng.gen_range(1..3);
                let vec = gen_vec(&mut rng, dims, values, &pools[ix]);
                if !live[ix].contains(&id) {
                    live[ix].push(id);
                }
                ops.push(Op::Add { ix, id, vec });
            }
        }
        let n_ops = if round == 0 {
            rng.gen_range(p.ops_per_round.0.max(1)..=p.ops_per_round.1.max(1))
        } else {
            // later rounds: often small batches (incremental paths), sometimes large
            if rng.gen_bool(0.6) {
                rng.gen_range(0..=(p.ops_per_round.1 / 8).max(3))
            } else {
                rng.gen_range(p.ops_per_round.0..=p.ops_per_round.1)
            }
        };
        // a round of removals only: the automatic tree count n/(n/d+1) is not monotone in n, so such a build
        // may have to create trees although nothing was inserted
        let mut del_only_ix: Option<usize> = None;
        let n_ops = if round > 0 && p.p_del_only_round > 0.0 && rng.gen_bool(p.p_del_only_round) {
            let ix = rng.gen_range(0..n_ix);
            if live[ix].len() > 1 {
                for _ in 0..rng.gen_range(1..=4usize).min(live[ix].len() - 1) {
                    let k = rng.gen_range(0..live[ix].len());
                    let id = live[ix].swap_remove(k);
                    ops.push(Op::Del { ix, id });
                }
                del_only_ix = Some(ix);
            }
            0
        } else {
            n_ops
        };
        for _ in 0..n_ops {
            let ix = rng.gen_range(0..n_ix);
            let dims = model.ix[ix].dims;
            let r: f64 = rng.gen();
            if r < p.p_clear {
                ops.push(Op::Clear { ix });
                live[ix].clear();
            } else if r < p.p_clear + p.p_delete {
                // mostly present ids, sometimes absent ones
                let id = if !live[ix].is_empty() && rng.gen_bool(0.85) {
                    let k = rng.gen_range(0..live[ix].len());
                    live[ix].swap_remove(k)
                } else {
                    gen_id(&mut rng, id_dist)
                };
                live[ix].retain(|x| *x != id);
                ops.push(Op::Del { ix, id });
            } else if r < p.p_clear + p.p_delete + p.p_badlen {
                let len = match rng.gen_range(0..5) {
                    0 => 0,
                    1 => dims.saturating_sub(1),
                    2 => dims + 1,
                    3 => dims * 2,
                    _ => 1000,
                };
                let len = if len == dims { dims + 1 } else { len };
                ops.push(Op::BadLen { ix, id: gen_id(&mut rng, id_dist), len, kind: rng.gen_range(0..3) });
            } else if r < p.p_clear + p.p_delete + p.p_badlen + p.p_append {
                let id = if rng.gen_bool(0.6) {
                    live[ix].iter().max().map_or(0, |m| m.saturating_add(rng.gen_range(1..4)))
                } else {
                    gen_id(&mut rng, id_dist)
                };
                let vec = gen_vec(&mut rng, dims, values, &pools[ix]);
                pools[ix].push(vec.clone());
                ops.push(Op::Append { ix, id, vec });
                // the engine decides from the raw dump whether it must succeed; liveness here is a hint only
            } else {
                if live[ix].len() >= p.max_items {
                    continue;
                }
                let mut id = gen_id(&mut rng, id_dist);
                let mut vec = gen_vec(&mut rng, dims, values, &pools[ix]);
                if p.p_variant_overwrite > 0.0 && !live[ix].is_empty() && rng.gen_bool(p.p_variant_overwrite) {
                    // overwrite a live id with a vector that is equal in value but not in bits
                    let k = rng.gen_range(0..live[ix].len());
                    if let Some(old) = last_written[ix].get(&live[ix][k]) {
                        id = live[ix][k];
                        vec = variant_of(&mut rng, old);
                    }
                }
                if pools[ix].len() < 64 {
                    pools[ix].push(vec.clone());
                }
                if !live[ix].contains(&id) {
                    live[ix].push(id);
                }
                last_written[ix].insert(id, vec.clone());
                ops.push(Op::Add { ix, id, vec });
            }
            if rng.gen_bool(p.p_midcommit) {
                ops.push(if rng.gen_bool(0.7) { Op::Commit } else { Op::Abort });
            }
        }
        if p.change_metric && round > 0 && rng.gen_bool(0.3) {
            let ix = rng.gen_range(0..n_ix);
            ops.push(Op::ChangeMetric { ix, to: pick(&mut rng, &p.metrics) });
        }
        // builds: usually every index, sometimes one is left stale
        let mut order: Vec<usize> = (0..n_ix).collect();
        order.shuffle(&mut rng);
        for ix in order {
            if n_ix > 1 && rng.gen_bool(0.15) {
                continue;
            }
            if !rng.gen_bool(p.keep_opts) {
                opts[ix] = gen_opts(&mut rng, p);
            } else {
                opts[ix].rng_seed = rng.gen_range(0..1u64 << 40);
                opts[ix].threads = pick(&mut rng, &p.threads);
            }
            if p.p_cancelled_first_build > 0.0 && rng.gen_bool(p.p_cancelled_first_build) {
                ops.push(Op::CancelledFirstBuild { ix, opts: opts[ix].clone(), step: rng.gen_range(0..10), extra: [0u64, 0, 1, 3, 10, 40][rng.gen_range(0..6)] });
                if rng.gen_bool(0.5) {
                    // the caller may even commit what the failed build left behind
                    ops.push(Op::Commit);
                }
            }
            let mut o = opts[ix].clone();
            if del_only_ix == Some(ix) {
                o.n_trees = None;
            }
            // automatic tree counts grow with the dimension (~min(n, dims) trees): keep big live sets affordable
            if o.n_trees.is_none() && live[ix].len() > 200 && model.ix[ix].dims > 16 {
                o.n_trees = Some(3);
            }
            ops.push(Op::Build { ix, opts: o });
        }
        ops.push(if rng.gen_bool(p.p_abort) { Op::Abort } else { Op::Commit });
    }
    Case { seed, model, ops, values, id_dist, tmpdir_set: rng.gen_bool(0.3) }
}

// ------------------------------------------------------------------------------------------------
// results

#[derive(Debug)]
pub struct Violation {
    pub step: usize,
    pub msg: String,
    /// stable key used to match known findings: "<check>:<what>"
    pub key: String,
}

#[derive(Debug)]
pub enum CaseEnd {
    Done,
    /// an event another property owns stopped this history early
    Truncated(String),
    Violation(Violation),
    Inconclusive(String),
}

pub struct CaseReport {
    pub end: CaseEnd,
    pub counters: Counters,
    /// signatures of non-trivial distinct things observed (forest shapes, ...)
    pub sigs: Vec<u64>,
    pub steps_done: usize,
    pub log: Vec<String>,
}

pub static POLLS: AtomicU64 = AtomicU64::new(0);

/// Logical bound on the number of cancellation polls of one build (DESIGN.md §2.6).
pub fn poll_bound(n_items: usize, trees: usize, batches: usize) -> u64 {
    let n = n_items as u64;
    let lg = 64 - (n + 2).leading_zeros() as u64;
    5_000 + 100 * (n + 1) * (trees as u64 + 1) * lg * (batches as u64 + 1)
}

/// Logical bound on the iterations of the two unbounded build loops (hook `verif::tick`):
/// every iteration of a correct build retires at least one over-full bucket or one batch of
/// pending items, and there are at most O(items x trees) of those.
pub fn loop_bound(n_items: usize, trees: usize) -> u64 {
    256 + 16 * (n_items as u64 + 1) * (trees as u64 + 1)
}

pub enum BuildOutcome {
    Ok { polls: u64, ticks: [u64; 2] },
    Err { err: String, cancelled: bool },
    Panic(String),
    NonTerminating { polls: u64, ticks: [u64; 2] },
}

pub fn run_build<D: Distance>(
    wtxn: &mut RwTxn,
    writer: &Writer<D>,
    opts: &BuildOpts,
    limit: u64,
    loop_limit: u64,
    cancel_plan: Option<(u8, u64)>,
    warmup: bool,
) -> BuildOutcome {
    #[cfg(arroy_verif)]
    {
        arroy::verif::reset_ticks();
        arroy::verif::LOOP_LIMIT.store(loop_limit, Ordering::Relaxed);
    }
    let polls = AtomicU64::new(0);
    let tripped = std::sync::atomic::AtomicBool::new(false);
    let planned = std::sync::atomic::AtomicBool::new(false);
    let warm = std::sync::atomic::AtomicBool::new(warmup);
    let warm_failed = std::sync::atomic::AtomicBool::new(false);
    let step_now = std::sync::atomic::AtomicU8::new(0);
    let polls_in_step = AtomicU64::new(0);
    let mut rng = StdRng::seed_from_u64(opts.rng_seed);
    let pool = pool(opts.threads);
    start_stall_monitor();
    struct Active;
    impl Drop for Active {
        fn drop(&mut self) {
            BUILDS_ACTIVE.fetch_sub(1, Ordering::Relaxed);
        }
    }
    BUILD_PROGRESS.fetch_add(1, Ordering::Relaxed);
    BUILDS_ACTIVE.fetch_add(1, Ordering::Relaxed);
    let _active = Active;
    let r = guarded(|| {
        pool.install(|| {
            let mut b = writer.builder(&mut rng);
            if let Some(n) = opts.n_trees {
                b.n_trees(n);
            }
            if let Some(s) = opts.split_after {
                b.split_after(s);
            }
            if let Some(mem) = opts.memory {
                b.available_memory(mem);
            }
            b.progress(|pr| {
                BUILD_PROGRESS.fetch_add(1, Ordering::Relaxed);
                step_now.store(pr.main as u8, Ordering::Relaxed);
            });
            b.cancel(|| {
                BUILD_PROGRESS.fetch_add(1, Ordering::Relaxed);
                if warm.load(Ordering::Relaxed) {
                    return true;
                }
                let p = polls.fetch_add(1, Ordering::Relaxed);
                if p > limit {
                    tripped.store(true, Ordering::Relaxed);
                    return true;
                }
                // planned cancellation: monotone, from `extra` polls after the build entered `step`
                if let Some((step, extra)) = cancel_plan {
                    if planned.load(Ordering::Relaxed) {
                        return true;
                    }
                    if step_now.load(Ordering::Relaxed) >= step {
                        let since = polls_in_step.fetch_add(1, Ordering::Relaxed);
                        if since >= extra {
                            planned.store(true, Ordering::Relaxed);
                            return true;
                        }
                    }
                }
                false
            });
            if warmup {
                // the same builder object first meets a cancellation at its very first poll (nothing has been
                // touched yet, the crate's own test retries in the same transaction), then the fault is lifted:
                // the retry must be an ordinary build with the options that were configured
                let first = b.build(wtxn);
                warm.store(false, Ordering::Relaxed);
                if !matches!(first, Err(arroy::Error::BuildCancelled)) {
                    warm_failed.store(true, Ordering::Relaxed);
                    return first;
                }
            }
            b.build(wtxn)
        })
    });
    if warm_failed.load(Ordering::Relaxed) {
        return BuildOutcome::Err { err: format!("a build whose callback answers true at its first poll returned {r:?} instead of BuildCancelled"), cancelled: false };
    }
    if warmup {
        if let Ok(Err(arroy::Error::BuildCancelled)) = &r {
            if !tripped.load(Ordering::Relaxed) && !planned.load(Ordering::Relaxed) {
                return BuildOutcome::Err { err: "retrying on the same builder after the cancellation was lifted still returns BuildCancelled although the callback no longer answers true".to_string(), cancelled: false };
            }
        }
    }
    let polls = polls.load(Ordering::Relaxed);
    POLLS.fetch_add(polls, Ordering::Relaxed);
    #[allow(unused_mut)]
    let mut ticks = [0u64; 2];
    #[cfg(arroy_verif)]
    {
        ticks = [arroy::verif::LOOP_TICKS[0].load(Ordering::Relaxed), arroy::verif::LOOP_TICKS[1].load(Ordering::Relaxed)];
        arroy::verif::LOOP_LIMIT.store(0, Ordering::Relaxed);
    }
    let loops_tripped = loop_limit != 0 && (ticks[0] > loop_limit || ticks[1] > loop_limit);
    match r {
        Err(p) => BuildOutcome::Panic(p),
        Ok(Ok(())) => {
            if tripped.load(Ordering::Relaxed) || loops_tripped {
                BuildOutcome::NonTerminating { polls, ticks }
            } else {
                BuildOutcome::Ok { polls, ticks }
            }
        }
        Ok(Err(e)) => {
            if tripped.load(Ordering::Relaxed) || loops_tripped {
                BuildOutcome::NonTerminating { polls, ticks }
            } else {
                let cancelled = matches!(e, arroy::Error::BuildCancelled);
                BuildOutcome::Err { err: format!("{e:?}"), cancelled }
            }
        }
    }
}

// ------------------------------------------------------------------------------------------------
// monitors

/// C05: the item store, through the writer (and the reader when it opens), equals the model.
pub fn check_store<D: Distance>(rtxn: &RoTxn, db: RawDb, m: &IndexModel, probe: &[u32], full: bool, c: &mut Counters) -> Result<(), String> {
    let writer = Writer::<D>::new(adb::<D>(db), m.index, m.dims);
    let same = |a: &[f32], b: &[f32]| a.len() == b.len() && a.iter().zip(b).all(|(x, y)| x.to_bits() == y.to_bits());
    for id in probe {
        let want = m.items.get(id).map(|v| oracle::expected_readback(m.metric, v));
        let has = writer.contains_item(rtxn, *id).map_err(|e| format!("contains_item({id}) failed: {e:?}"))?;
        if has != want.is_some() {
            return Err(format!("contains_item({id}) = {has}, model says {}", want.is_some()));
        }
        let got = writer.item_vector(rtxn, *id).map_err(|e| format!("item_vector({id}) failed: {e:?}"))?;
        match (&got, &want) {
            (None, None) => {}
            (Some(g), Some(w)) if same(g, w) => {}
            _ => {
                return Err(format!(
                    "item_vector({id}) = {}, last written (as representable) = {}",
                    got.as_ref().map_or("None".into(), |g| format!("len {} {}", g.len(), fmt_f32s(g))),
                    want.as_ref().map_or("None".into(), |g| format!("len {} {}", g.len(), fmt_f32s(g)))
                ))
            }
        }
        c.inc("store_probes");
    }
    if full {
        let empty = writer.is_empty(rtxn).map_err(|e| format!("is_empty failed: {e:?}"))?;
        if empty != m.items.is_empty() {
            return Err(format!("is_empty = {empty}, model holds {} items", m.items.len()));
        }
        let mut it = writer.iter(rtxn).map_err(|e| format!("iter failed: {e:?}"))?;
        let mut want = m.items.iter();
        let mut n = 0usize;
        loop {
            let g = it.next();
            let w = want.next();
            match (g, w) {
                (None, None) => break,
                (Some(Ok((id, v))), Some((wid, wv))) => {
                    let wv = oracle::expected_readback(m.metric, wv);
                    if id != *wid {
                        return Err(format!("iter yields id {id} at position {n}, model expects id {wid} (ascending, each once)"));
                    }
                    if !same(&v, &wv) {
                        return Err(format!(
                            "iter yields for id {id} a vector of len {} {}, last written (as representable) len {} {}",
                            v.len(),
                            fmt_f32s(&v),
                            wv.len(),
                            fmt_f32s(&wv)
                        ));
                    }
                }
                (Some(Err(e)), _) => return Err(format!("iter failed at position {n}: {e:?}")),
                (Some(Ok((id, _))), None) => return Err(format!("iter yields extra id {id} after the {n} stored items")),
                (None, Some((wid, _))) => return Err(format!("iter stops after {n} items, id {wid} is missing")),
            }
            n += 1;
        }
        c.inc("store_full_iters");
        c.add("store_items_iterated", n as u64);
        // reader side, when it opens
        if m.has_metadata && !m.dirty {
            if let Ok(reader) = Reader::<D>::open(rtxn, m.index, adb::<D>(db)) {
                let ids: RoaringBitmap = m.items.keys().copied().collect();
                if reader.item_ids() != &ids {
                    let extra = reader.item_ids() - &ids;
                    let missing = &ids - reader.item_ids();
                    return Err(format!(
                        "Reader::item_ids has {} ids, model has {}; in the reader only: {:?}, in the model only: {:?}",
                        reader.item_ids().len(),
                        ids.len(),
                        extra.iter().take(4).collect::<Vec<_>>(),
                        missing.iter().take(4).collect::<Vec<_>>()
                    ));
                }
                if reader.n_items() != ids.len() {
                    return Err(format!("Reader::n_items = {}, model has {}", reader.n_items(), ids.len()));
                }
                if reader.dimensions() != m.dims {
                    return Err(format!("Reader::dimensions = {}, declared {}", reader.dimensions(), m.dims));
                }
                let e = reader.is_empty(rtxn).map_err(|e| format!("Reader::is_empty failed: {e:?}"))?;
                if e != m.items.is_empty() {
                    return Err(format!("Reader::is_empty = {e}, model holds {} items", m.items.len()));
                }
                for id in probe {
                    let want = m.items.get(id).map(|v| oracle::expected_readback(m.metric, v));
                    let got = reader.item_vector(rtxn, *id).map_err(|e| format!("Reader::item_vector({id}) failed: {e:?}"))?;
                    let ok = match (&got, &want) {
                        (None, None) => true,
                        (Some(g), Some(w)) => same(g, w),
                        _ => false,
                    };
                    if !ok {
                        return Err(format!("Reader::item_vector({id}) differs from the last written vector"));
                    }
                    let has = reader.contains_item(rtxn, *id).map_err(|e| format!("Reader::contains_item failed: {e:?}"))?;
                    if has != want.is_some() {
                        return Err(format!("Reader::contains_item({id}) = {has}"));
                    }
                }
                let mut n = 0;
                for (r, (wid, wv)) in reader.iter(rtxn).map_err(|e| format!("Reader::iter failed: {e:?}"))?.zip(m.items.iter()) {
                    let (id, v) = r.map_err(|e| format!("Reader::iter failed: {e:?}"))?;
                    let wv = oracle::expected_readback(m.metric, wv);
                    if id != *wid || !same(&v, &wv) {
                        return Err(format!("Reader::iter yields (id {id}, len {}) where the model has (id {wid}, len {})", v.len(), wv.len()));
                    }
                    n += 1;
                }
                if n != m.items.len() {
                    return Err(format!("Reader::iter yields {n} items, model has {}", m.items.len()));
                }
                c.inc("store_reader_checks");
            }
        }
    }
    Ok(())
}

#[derive(Debug, PartialEq, Clone, Copy)]
pub enum OpenKind {
    Ok,
    MissingMetadata,
    Unmatching,
    NeedBuild,
    Other,
}

pub fn open_kind<D: Distance>(rtxn: &RoTxn, db: RawDb, index: u16) -> (OpenKind, String) {
    match Reader::<D>::open(rtxn, index, adb::<D>(db)) {
        Ok(_) => (OpenKind::Ok, "Ok".into()),
        Err(arroy::Error::MissingMetadata(i)) => (if i == index { OpenKind::MissingMetadata } else { OpenKind::Other }, format!("MissingMetadata({i})")),
        Err(arroy::Error::UnmatchingDistance { expected, received }) => (OpenKind::Unmatching, format!("UnmatchingDistance{{expected:{expected},received:{received}}}")),
        Err(arroy::Error::NeedBuild(i)) => (if i == index { OpenKind::NeedBuild } else { OpenKind::Other }, format!("NeedBuild({i})")),
        Err(e) => (OpenKind::Other, format!("{e:?}")),
    }
}

/// C06: Reader::open and need_build agree with the model's staleness.
/// Answers of one searchable index other than `op_ix` to a fixed query under a ladder of limited budgets
/// (around the database's entry count, the figure `Reader::n_nodes` hands out): (position, ladder, answers).
/// With `again` the same index and ladder are asked again.
pub type ForeignAnswers = (usize, Vec<usize>, Vec<Vec<(u32, u32)>>);
pub fn foreign_answers(rtxn: &RoTxn, db: RawDb, model: &Model, op_ix: usize, again: Option<&ForeignAnswers>) -> Option<ForeignAnswers> {
    let j = match again {
        Some(a) => a.0,
        // the largest one: its forest is the most likely to need more budget than the database has entries
        None => (0..model.ix.len()).filter(|j| *j != op_ix && model.ix[*j].has_metadata && !model.ix[*j].dirty && model.ix[*j].items.len() >= 2).max_by_key(|j| model.ix[*j].items.len())?,
    };
    let m = &model.ix[j];
    let q = m.items.values().next()?.clone();
    let n = m.items.len();
    with_metric!(m.metric, D, {
        let reader = Reader::<D>::open(rtxn, m.index, adb::<D>(db)).ok()?;
        let ladder: Vec<usize> = match again {
            Some(a) => a.1.clone(),
            None => {
                let len = reader.n_nodes(rtxn).ok()?.map_or(1, |x| x.get());
                vec![len.saturating_sub(3).max(1), len.saturating_sub(1).max(1), len, len + 1, len + 2, len + 4, len + 40, (n / 2).max(1)]
            }
        };
        let mut answers = Vec::new();
        for sk in &ladder {
            let mut qb = reader.nns(n);
            qb.search_k(NonZeroUsize::new(*sk).unwrap());
            let r = guarded(|| qb.by_vector(rtxn, &q)).ok()?.ok()?;
            answers.push(r.into_iter().map(|(id, d)| (id, d.to_bits())).collect());
        }
        Some((j, ladder, answers))
    })
}

// ------------------------------------------------------------------------------------------------
// stall monitor: a build that burns CPU without a single progress event

/// progress events of builds in this process (cancellation polls, progress callbacks)
pub static BUILD_PROGRESS: std::sync::atomic::AtomicU64 = std::sync::atomic::AtomicU64::new(0);
/// builds currently running in this process
pub static BUILDS_ACTIVE: std::sync::atomic::AtomicU64 = std::sync::atomic::AtomicU64::new(0);
/// what to blame: (property, case seed, description of the build)
pub static STALL_CONTEXT: std::sync::Mutex<Option<(String, String, String)>> = std::sync::Mutex::new(None);

fn process_cpu_seconds() -> f64 {
    let mut ts = libc::timespec { tv_sec: 0, tv_nsec: 0 };
    unsafe {
        libc::clock_gettime(libc::CLOCK_PROCESS_CPUTIME_ID, &mut ts);
    }
    ts.tv_sec as f64 + ts.tv_nsec as f64 * 1e-9
}

/// Starts (once) a thread that watches builds run by `run_build`: if the process consumes `limit` seconds of
/// CPU time (not wall-clock time: a loaded machine does not advance it) while a build is running and not one
/// cancellation poll or progress callback arrives, the build is spinning in a loop that asks nobody: that is
/// reported as a violation for the case being run and the process is aborted (the thread cannot be recovered).
pub fn start_stall_monitor() {
    static STARTED: std::sync::Once = std::sync::Once::new();
    STARTED.call_once(|| {
        let limit: f64 = std::env::var("VERIF_STALL_CPU_S").ok().and_then(|s| s.parse().ok()).unwrap_or(90.0);
        std::thread::spawn(move || {
            let mut last = u64::MAX;
            let mut cpu_at = 0f64;
            loop {
                std::thread::sleep(std::time::Duration::from_millis(250));
                if BUILDS_ACTIVE.load(Ordering::Relaxed) == 0 {
                    last = u64::MAX;
                    continue;
                }
                let p = BUILD_PROGRESS.load(Ordering::Relaxed);
                let cpu = process_cpu_seconds();
                if p != last {
                    last = p;
                    cpu_at = cpu;
                } else if cpu - cpu_at > limit {
                    let ctx = STALL_CONTEXT.lock().map(|g| g.clone()).unwrap_or(None);
                    let (prop, case, desc) = ctx.unwrap_or(("?".into(), "?".into(), "?".into()));
                    crate::emit(
                        "VIOL",
                        &crate::util::J::obj()
                            .set("property", crate::util::J::s(prop))
                            .set("case_seed", crate::util::J::s(case))
                            .set("key", crate::util::J::s("build:stalled"))
                            .set("step", crate::util::J::i(0))
                            .set("msg", crate::util::J::s(format!("{desc} consumed {:.0} s of CPU time without a single cancellation poll or progress callback: it spins in a loop that never asks whether to stop (the process is aborted)", cpu - cpu_at))),
                    );
                    std::process::abort();
                }
            }
        });
    });
}

pub fn check_staleness(rtxn: &RoTxn, db: RawDb, m: &IndexModel, rng: &mut StdRng, c: &mut Counters) -> Result<(), String> {
    let (k, desc) = with_metric!(m.metric, D, open_kind::<D>(rtxn, db, m.index));
    let want = if !m.has_metadata {
        OpenKind::MissingMetadata
    } else if m.dirty {
        OpenKind::NeedBuild
    } else {
        OpenKind::Ok
    };
    if k != want {
        return Err(format!(
            "Reader::open -> {desc}, expected {want:?} (model: built={}, updates since last build={})",
            m.has_metadata, m.dirty
        ));
    }
    c.inc(&format!("open_{want:?}"));
    let nb = with_metric!(m.metric, D, Writer::<D>::new(adb::<D>(db), m.index, m.dims).need_build(rtxn))
        .map_err(|e| format!("need_build failed: {e:?}"))?;
    let want_nb = !m.has_metadata || m.dirty;
    if nb != want_nb {
        return Err(format!("need_build = {nb}, expected {want_nb} (built={}, dirty={})", m.has_metadata, m.dirty));
    }
    // wrong metric
    let other = loop {
        let o = ALL_METRICS[rng.gen_range(0..7)];
        if o != m.metric {
            break o;
        }
    };
    let (k2, desc2) = with_metric!(other, D, open_kind::<D>(rtxn, db, m.index));
    let ok = if !m.has_metadata {
        k2 == OpenKind::MissingMetadata
    } else if m.dirty {
        k2 == OpenKind::Unmatching || k2 == OpenKind::NeedBuild
    } else {
        k2 == OpenKind::Unmatching
    };
    if !ok {
        return Err(format!("Reader::<{}>::open on an index of metric {} -> {desc2}", other.short(), m.metric.short()));
    }
    c.inc("open_wrong_metric");
    Ok(())
}

pub fn decode_dump(d: &Dump, model: &Model) -> Result<BTreeMap<u16, RawIndex>, String> {
    rawdb::decode(d, &model.decl())
}

/// C02: exhaustive search equals the oracle. Returns number of queries run.
pub fn check_exact<D: Distance>(
    rtxn: &RoTxn,
    db: RawDb,
    m: &IndexModel,
    rng: &mut StdRng,
    n_queries: usize,
    accuracy: bool,
    c: &mut Counters,
) -> Result<(), String> {
    let reader = Reader::<D>::open(rtxn, m.index, adb::<D>(db)).map_err(|e| format!("Reader::open after a successful build failed: {e:?}"))?;
    let stored = &m.items;
    let n = stored.len();
    let ids: Vec<u32> = stored.keys().copied().collect();
    for qi in 0..n_queries {
        let count = match rng.gen_range(0..8) {
            0 => 0,
            1 => 1,
            2 => 3,
            3 => n.saturating_sub(1),
            4 => n,
            5 => n + 5,
            _ => rng.gen_range(1..=n.max(1) + 1),
        };
        let by_item = !ids.is_empty() && rng.gen_bool(0.35);
        let (query, res, what) = if by_item {
            let id = ids[rng.gen_range(0..ids.len())];
            let mut qb = reader.nns(count);
            qb.search_k(NonZeroUsize::MAX);
            let r = guarded(|| qb.by_item(rtxn, id)).map_err(|p| format!("by_item({id}) panicked: {p}"))?;
            let r = r.map_err(|e| format!("by_item({id}) failed: {e:?}"))?;
            let r = r.ok_or_else(|| format!("by_item({id}) returned None for a stored id"))?;
            (stored[&id].clone(), r, format!("by_item({id}) count={count}"))
        } else {
            let q: Vec<f32> = match (qi % 4, ids.is_empty()) {
                (0, false) => stored[&ids[rng.gen_range(0..ids.len())]].clone(),
                (1, false) => stored[&ids[rng.gen_range(0..ids.len())]].iter().map(|x| x + rng.gen_range(-0.05f32..0.05)).collect(),
                (2, _) => vec![0.0; m.dims],
                _ => (0..m.dims).map(|_| rng.gen_range(-2.0f32..2.0)).collect(),
            };
            let q: Vec<f32> = q.into_iter().map(|x| if x.is_finite() { x } else { 0.5 }).collect();
            let mut qb = reader.nns(count);
            qb.search_k(NonZeroUsize::MAX);
            let r = guarded(|| qb.by_vector(rtxn, &q)).map_err(|p| format!("by_vector panicked: {p}"))?;
            let r = r.map_err(|e| format!("by_vector failed: {e:?}"))?;
            (q, r, format!("by_vector count={count}"))
        };
        let spec = TopkSpec { metric: m.metric, query: &query, stored, filter: None, count, exact: true, accuracy };
        oracle::check_topk(&spec, &res).map_err(|e| {
            let qn: f64 = query.iter().map(|x| oracle::wide(*x) * oracle::wide(*x)).sum::<f64>().sqrt();
            let norms: Vec<(u32, f64)> = res.iter().take(12).filter_map(|(id, _)| stored.get(id).map(|v| (*id, v.iter().map(|x| oracle::wide(*x) * oracle::wide(*x)).sum::<f64>().sqrt()))).collect();
            format!("{what} search_k=MAX over {n} items: {e}; query norm {qn:e}; returned {:?}; norms of the returned items {norms:?}", res.iter().take(12).collect::<Vec<_>>())
        })?;
        c.inc("exact_queries");
        c.add("exact_results_checked", res.len() as u64);
    }
    Ok(())
}

// ------------------------------------------------------------------------------------------------
// the engine

pub struct Engine<'p> {
    pub p: &'p Profile,
    pub c: Counters,
    pub sigs: Vec<u64>,
    pub log: Vec<String>,
    pub prev_forest: BTreeMap<u16, RawIndex>,
    pub final_model: Option<Model>,
    pub writers: WriterCache,
    /// temp directory configured on every Writer of this case (Writer::set_tmpdir), if any
    pub tmpdir: Option<std::path::PathBuf>,
}

fn vio(step: usize, key: &str, msg: String) -> CaseEnd {
    CaseEnd::Violation(Violation { step, msg, key: key.to_string() })
}

pub fn run_case(case: &Case, p: &Profile) -> CaseReport {
    let world = World::new(1 << 30, false);
    run_case_in(&world, case, p).0
}

/// Runs a case in a caller-provided environment and also returns the model of the committed state.
pub fn run_case_in(world: &World, case: &Case, p: &Profile) -> (CaseReport, Model) {
    let long_lived = case.seed & 0x100 != 0;
    let mut e = Engine { p, c: Counters::default(), sigs: Vec::new(), log: Vec::new(), prev_forest: BTreeMap::new(), final_model: None, writers: WriterCache::new(long_lived), tmpdir: None };
    e.c.inc(if long_lived { "cases_with_long_lived_writers" } else { "cases_with_fresh_writers" });
    let mut steps = 0usize;
    let end = match guarded(|| e.run(world, case, &mut steps)) {
        Ok(end) => end,
        Err(pmsg) => CaseEnd::Inconclusive(format!("harness panic at step {steps}: {pmsg}")),
    };
    let fm = e.final_model.take().unwrap_or_default();
    (CaseReport { end, counters: e.c, sigs: e.sigs, steps_done: steps, log: e.log }, fm)
}

impl Engine<'_> {
    fn run(&mut self, world: &World, case: &Case, steps: &mut usize) -> CaseEnd {
        let p = self.p;
        let ck = &p.checks;
        let force_tmpdir = std::env::var("VERIF_FORCE_TMPDIR").is_ok();
        let tmp_for_build = if case.tmpdir_set || force_tmpdir { Some(tempfile::tempdir_in(scratch_root()).unwrap()) } else { None };
        self.tmpdir = tmp_for_build.as_ref().map(|t| t.path().to_path_buf());
        if tmp_for_build.is_some() {
            self.c.inc("cases_with_configured_tmpdir");
        }
        let mut rng = StdRng::seed_from_u64(case.seed ^ 0x5151_5151);
        let mut model = case.model.clone();
        let mut committed_model = model.clone();
        let mut i = 0usize;
        let ops = &case.ops;
        while i < ops.len() {
            // one write transaction
            let pre_dump = if ck.abort_clean {
                let rtxn = world.env.read_txn().unwrap();
                Some(rawdb::dump(&rtxn, world.db).unwrap())
            } else {
                None
            };
            let mut wtxn = world.env.write_txn().unwrap();
            let mut ended = None;
            while i < ops.len() {
                let op = &ops[i];
                *steps = i;
                i += 1;
                match op {
                    Op::Commit | Op::Abort => {
                        ended = Some(matches!(op, Op::Commit));
                        break;
                    }
                    _ => {}
                }
                self.c.inc(&format!("op_{}", op.kind()));
                if let Some(end) = self.apply(world, &mut wtxn, &mut model, op, i - 1, &mut rng, tmp_for_build.as_ref().map(|t| t.path())) {
                    return end;
                }
            }
            let commit = ended.unwrap_or(true);
            if commit {
                if let Err(e) = wtxn.commit() {
                    return CaseEnd::Inconclusive(format!("commit failed: {e:?}"));
                }
                committed_model = model.clone();
                self.final_model = Some(committed_model.clone());
                self.c.inc("commits");
            } else {
                wtxn.abort();
                model = committed_model.clone();
                self.c.inc("aborts");
                if let Some(pre) = &pre_dump {
                    let rtxn = world.env.read_txn().unwrap();
                    let post = rawdb::dump(&rtxn, world.db).unwrap();
                    if let Some(d) = rawdb::first_diff(pre, &post) {
                        return vio(i, "abort:trace", format!("after abort the database differs from its pre-transaction contents: {d}"));
                    }
                    self.c.inc("abort_dumps_compared");
                }
            }
            // after commit/abort: the committed state through a fresh read transaction
            if ck.store || ck.staleness {
                let rtxn = world.env.read_txn().unwrap();
                for m in &model.ix {
                    if ck.store {
                        let probe: Vec<u32> = m.items.keys().copied().take(3).chain([0, u32::MAX]).collect();
                        if let Err(e) = with_metric!(m.metric, D, check_store::<D>(&rtxn, world.db, m, &probe, true, &mut self.c)) {
                            return vio(i, "store:after-txn", format!("after {} (fresh read txn), index {}: {e}", if commit { "commit" } else { "abort" }, m.index));
                        }
                    }
                    if ck.staleness {
                        if let Err(e) = check_staleness(&rtxn, world.db, m, &mut rng, &mut self.c) {
                            return vio(i, "stale:after-txn", format!("after {} (fresh read txn), index {}: {e}", if commit { "commit" } else { "abort" }, m.index));
                        }
                    }
                }
            }
        }
        *steps = ops.len();
        CaseEnd::Done
    }

    #[allow(clippy::too_many_arguments)]
    fn apply(
        &mut self,
        world: &World,
        wtxn: &mut RwTxn,
        model: &mut Model,
        op: &Op,
        step: usize,
        rng: &mut StdRng,
        tmpdir: Option<&std::path::Path>,
    ) -> Option<CaseEnd> {
        let p = self.p;
        let ck = &p.checks;
        let db = world.db;
        let desc = op.describe(model);
        if self.log.len() < 4000 {
            self.log.push(desc.clone());
        }
        let op_ix = match op {
            Op::Add { ix, .. } | Op::Append { ix, .. } | Op::Del { ix, .. } | Op::Clear { ix } | Op::Build { ix, .. } | Op::CancelledFirstBuild { ix, .. } | Op::BadLen { ix, .. } | Op::ChangeMetric { ix, .. } => *ix,
            _ => unreachable!(),
        };
        let (index, metric, dims) = {
            let m = &model.ix[op_ix];
            (m.index, m.metric, m.dims)
        };
        let need_pre_dump = (ck.isolation && model.ix.len() > 1)
            || ck.rejected
            || matches!(op, Op::Append { .. })
            || (matches!(op, Op::ChangeMetric { .. }));
        let pre = if need_pre_dump { Some(rawdb::dump(wtxn, db).unwrap()) } else { None };
        let pre_answers = if ck.isolation && model.ix.len() > 1 { foreign_answers(wtxn, db, model, op_ix, None) } else { None };
        let mut touched: Vec<u32> = Vec::new();
        let mut unchanged_expected = false;
        match op {
            Op::Add { id, vec, .. } => {
                let r = with_metric!(metric, D, { let w = self.writers.get::<D>(db, index, metric, dims, tmpdir); guarded(|| w.add_item(wtxn, *id, vec)) });
                match r {
                    Ok(Ok(())) => {}
                    Ok(Err(e)) => return Some(self.own(ck.store || ck.build_must_succeed, step, "add:error", format!("{desc} failed: {e:?}"))),
                    Err(pm) => return Some(self.own(ck.store || ck.build_must_succeed, step, "add:panic", format!("{desc} panicked: {pm}"))),
                }
                let m = &mut model.ix[op_ix];
                if m.items.insert(*id, vec.clone()).is_some() {
                    self.c.inc("overwrites");
                }
                m.dirty = true;
                touched.push(*id);
            }
            Op::Append { id, vec, .. } => {
                let last = pre.as_ref().unwrap().last().map(|(k, _)| k.clone());
                let newk = rawdb::encode_key(index, rawdb::KIND_ITEM, *id).to_vec();
                let must_succeed = last.map_or(true, |l| newk > l);
                let r = with_metric!(metric, D, { let w = self.writers.get::<D>(db, index, metric, dims, tmpdir); guarded(|| w.append_item(wtxn, *id, vec)) });
                match r {
                    Err(pm) => return Some(self.own(ck.rejected || ck.store, step, "append:panic", format!("{desc} panicked: {pm}"))),
                    Ok(Ok(())) => {
                        if !must_succeed {
                            return Some(self.own(ck.rejected, step, "append:accepted", format!("{desc} succeeded although a key >= the new one exists in the database")));
                        }
                        self.c.inc("append_ok");
                        let m = &mut model.ix[op_ix];
                        m.items.insert(*id, vec.clone());
                        m.dirty = true;
                        touched.push(*id);
                        if ck.rejected {
                            // twin: a valid append leaves exactly the bytes add_item would have left
                            let after = rawdb::dump(wtxn, db).unwrap();
                            let mut want: BTreeMap<Vec<u8>, Vec<u8>> = pre.as_ref().unwrap().iter().cloned().collect();
                            let ev = encode_item_value(metric, dims, vec);
                            if let Some(ev) = ev {
                                want.insert(newk.clone(), ev);
                                want.insert(rawdb::encode_key(index, rawdb::KIND_UPDATED, *id).to_vec(), Vec::new());
                                let want: Dump = want.into_iter().collect();
                                if let Some(d) = rawdb::first_diff(&want, &after) {
                                    return Some(vio(step, "append:twin", format!("{desc}: database differs from what add_item would produce: {d}")));
                                }
                                self.c.inc("append_twin_compared");
                            }
                        }
                    }
                    Ok(Err(arroy::Error::InvalidItemAppend)) => {
                        if must_succeed {
                            return Some(self.own(ck.rejected, step, "append:refused", format!("{desc} refused with InvalidItemAppend although the new key sorts after every key in the database")));
                        }
                        self.c.inc("append_refused");
                        unchanged_expected = true;
                    }
                    Ok(Err(e)) => return Some(self.own(ck.rejected, step, "append:error", format!("{desc} failed with {e:?}"))),
                }
            }
            Op::Del { id, .. } => {
                let r = with_metric!(metric, D, { let w = self.writers.get::<D>(db, index, metric, dims, tmpdir); guarded(|| w.del_item(wtxn, *id)) });
                let m = &mut model.ix[op_ix];
                let existed = m.items.remove(id).is_some();
                match r {
                    Ok(Ok(b)) => {
                        if b != existed {
                            return Some(self.own(ck.store || ck.rejected, step, "del:return", format!("{desc} returned {b}, the item {} exist", if existed { "did" } else { "did not" })));
                        }
                    }
                    Ok(Err(e)) => return Some(self.own(ck.store, step, "del:error", format!("{desc} failed: {e:?}"))),
                    Err(pm) => return Some(self.own(ck.store, step, "del:panic", format!("{desc} panicked: {pm}"))),
                }
                if existed {
                    m.dirty = true;
                    self.c.inc("del_present");
                } else {
                    self.c.inc("del_absent");
                    unchanged_expected = true;
                }
                touched.push(*id);
            }
            Op::Clear { .. } => {
                let r = with_metric!(metric, D, { let w = self.writers.get::<D>(db, index, metric, dims, tmpdir); guarded(|| w.clear(wtxn)) });
                match r {
                    Ok(Ok(())) => {}
                    Ok(Err(e)) => return Some(self.own(ck.store, step, "clear:error", format!("{desc} failed: {e:?}"))),
                    Err(pm) => return Some(self.own(ck.store, step, "clear:panic", format!("{desc} panicked: {pm}"))),
                }
                let m = &mut model.ix[op_ix];
                touched.extend(m.items.keys().copied().take(4));
                m.items.clear();
                m.has_metadata = false;
                m.dirty = false;
                m.forest_reset();
                self.prev_forest.remove(&index);
            }
            Op::BadLen { id, len, kind, .. } => {
                let v = vec![0.25f32; *len];
                let r: Result<Result<(), arroy::Error>, String> = match kind {
                    0 => with_metric!(metric, D, { let w = self.writers.get::<D>(db, index, metric, dims, tmpdir); guarded(|| w.add_item(wtxn, *id, &v)) }),
                    1 => with_metric!(metric, D, { let w = self.writers.get::<D>(db, index, metric, dims, tmpdir); guarded(|| w.append_item(wtxn, *id, &v)) }),
                    _ => {
                        let m = &model.ix[op_ix];
                        if !(m.has_metadata && !m.dirty) {
                            return None;
                        }
                        // with and without a candidate filter (none / empty / disjoint from the items / overlapping)
                        let filt: Option<RoaringBitmap> = match rng.gen_range(0..4) {
                            0 => None,
                            1 => Some(RoaringBitmap::new()),
                            2 => Some((0..8).map(|_| gen_id(rng, IdDist::Sparse)).filter(|i| !m.items.contains_key(i)).collect()),
                            _ => Some(m.items.keys().copied().take(5).collect()),
                        };
                        self.c.inc(match &filt {
                            None => "badlen_search_no_filter",
                            Some(f) if f.is_empty() => "badlen_search_empty_filter",
                            Some(f) if f.iter().any(|i| m.items.contains_key(&i)) => "badlen_search_overlapping_filter",
                            Some(_) => "badlen_search_disjoint_filter",
                        });
                        with_metric!(metric, D, guarded(|| {
                            let reader = Reader::<D>::open(wtxn, index, adb::<D>(db))?;
                            let mut qb = reader.nns(3);
                            if let Some(f) = &filt {
                                qb.candidates(f);
                            }
                            qb.by_vector(wtxn, &v).map(|_| ())
                        }))
                    }
                };
                match r {
                    Ok(Err(arroy::Error::InvalidVecDimension { expected, received })) if expected == dims && received == *len => {
                        self.c.inc("badlen_rejected");
                    }
                    Ok(other) => {
                        // a wrong-length vector that is accepted also corrupts the item store (C05)
                        return Some(self.own(ck.rejected || ck.store, step, "badlen:result", format!("{desc} -> {other:?}, expected InvalidVecDimension{{expected:{dims},received:{len}}}")))
                    }
                    Err(pm) => return Some(self.own(ck.rejected, step, "badlen:panic", format!("{desc} panicked: {pm}"))),
                }
                unchanged_expected = true;
            }
            Op::ChangeMetric { to, .. } => {
                if let Some(end) = crate::props::c18::apply_change_metric(self, world, wtxn, model, op_ix, *to, step, pre.as_ref().unwrap()) {
                    return Some(end);
                }
            }
            Op::Build { opts, .. } => {
                if let Some(end) = self.build(world, wtxn, model, op_ix, opts, step, rng, tmpdir, &desc) {
                    return Some(end);
                }
            }
            Op::CancelledFirstBuild { opts, step: cstep, extra, .. } => {
                if model.ix[op_ix].has_metadata {
                    return None;
                }
                let n = model.ix[op_ix].items.len();
                let out = with_metric!(metric, D, {
                    let w = self.writers.get::<D>(db, index, metric, dims, tmpdir);
                    run_build::<D>(wtxn, w, opts, poll_bound(n, opts.n_trees.unwrap_or(dims) + 1, n / 200 + 2), loop_bound(n, opts.n_trees.unwrap_or(dims) + 1), Some((*cstep, *extra)), false)
                });
                match out {
                    BuildOutcome::Ok { .. } => {
                        // the plan came too late: this was an ordinary successful first build
                        let m = &mut model.ix[op_ix];
                        m.has_metadata = true;
                        m.dirty = false;
                        m.forest_reset();
                        m.capacity_mixed = true;
                        self.c.inc("cancel_plan_too_late");
                    }
                    BuildOutcome::Err { cancelled: true, .. } => {
                        // a cancelled build is not a build: the index is still never-built
                        self.c.inc("first_builds_cancelled");
                        self.c.inc(&format!("first_build_cancelled_in_step_{cstep}"));
                    }
                    BuildOutcome::Err { err, .. } => return Some(self.own(ck.build_must_succeed, step, "build:error", format!("{desc} failed with {err} instead of BuildCancelled"))),
                    BuildOutcome::Panic(pm) => return Some(self.own(ck.build_must_succeed || ck.staleness, step, "build:panic", format!("{desc} panicked: {pm}"))),
                    BuildOutcome::NonTerminating { .. } => return Some(self.own(ck.termination, step, "build:nonterminating", format!("{desc} exceeded its logical clock"))),
                }
            }
            Op::Commit | Op::Abort => unreachable!(),
        }
        // ---- monitors after the operation, inside the write transaction
        if let Some(pre) = &pre {
            if ck.rejected && unchanged_expected {
                let post = rawdb::dump(wtxn, db).unwrap();
                if let Some(d) = rawdb::first_diff(pre, &post) {
                    return Some(vio(step, "rejected:effect", format!("{desc} must have no effect, but {d}")));
                }
                self.c.inc("rejected_dumps_compared");
            }
            if ck.isolation && model.ix.len() > 1 {
                let post = rawdb::dump(wtxn, db).unwrap();
                let a = rawdb::dump_without_index(pre, index);
                let b = rawdb::dump_without_index(&post, index);
                if let Some(d) = rawdb::first_diff(&a, &b) {
                    return Some(vio(step, "isolation:bytes", format!("{desc} on index {index} changed another index: {d}")));
                }
                self.c.inc("isolation_dumps_compared");
                self.c.add("isolation_foreign_entries", a.len() as u64);
            }
        }
        if let Some(pa) = &pre_answers {
            if let Some(end) = self.compare_foreign_answers(wtxn, db, model, op_ix, pa, step, &desc) {
                return Some(end);
            }
        }
        if ck.store && !matches!(op, Op::Build { .. }) {
            let m = &model.ix[op_ix];
            let mut probe = touched.clone();
            probe.push(gen_id(rng, IdDist::Sparse));
            if let Some(k) = m.items.keys().next() {
                probe.push(*k);
            }
            let full = rng.gen_bool(0.15);
            if let Err(e) = with_metric!(m.metric, D, check_store::<D>(wtxn, db, m, &probe, full, &mut self.c)) {
                return Some(vio(step, "store:in-txn", format!("after {desc} (in the write txn): {e}")));
            }
        }
        if ck.staleness || ck.rejected || ck.store || ck.isolation {
            // distinct (operation kind, effect class, index state) situations observed
            let m = &model.ix[op_ix];
            let sig = crate::util::hash_str(&format!(
                "{}|{}|{}|{}|{}|{}",
                op.kind(),
                unchanged_expected,
                m.has_metadata,
                m.dirty,
                m.metric.short(),
                (m.items.len() as f64).log2().ceil()
            ));
            self.sigs.push(sig);
        }
        if ck.staleness {
            for m in &model.ix {
                if let Err(e) = check_staleness(wtxn, db, m, rng, &mut self.c) {
                    return Some(vio(step, "stale:in-txn", format!("after {desc} (in the write txn), index {}: {e}", m.index)));
                }
            }
        }
        None
    }

    /// A failure another property owns: violation if this profile owns it, else truncation.
    /// C07, "hence ... the same query answers": an index nobody touched answers the same limited-budget
    /// queries after an operation on another index as before it.
    #[allow(clippy::too_many_arguments)]
    fn compare_foreign_answers(&mut self, rtxn: &RoTxn, db: RawDb, model: &Model, op_ix: usize, pre: &ForeignAnswers, step: usize, desc: &str) -> Option<CaseEnd> {
        let other = model.ix[pre.0].index;
        match foreign_answers(rtxn, db, model, op_ix, Some(pre)) {
            None => Some(vio(step, "isolation:answers", format!("{desc} on index {}: index {other}, searchable before the operation, no longer opens or answers", model.ix[op_ix].index))),
            Some(post) => {
                for (k, sk) in pre.1.iter().enumerate() {
                    if pre.2[k] != post.2[k] {
                        let show = |v: &Vec<(u32, u32)>| format!("{} results {:?}…", v.len(), v.iter().take(4).map(|(i, d)| (*i, f32::from_bits(*d))).collect::<Vec<_>>());
                        return Some(vio(
                            step,
                            "isolation:answers",
                            format!("{desc} on index {} changed what index {other} answers to nns({}).search_k({sk}) for a fixed query: before {}, after {}", model.ix[op_ix].index, model.ix[pre.0].items.len(), show(&pre.2[k]), show(&post.2[k])),
                        ));
                    }
                }
                self.c.inc("isolation_answers_compared");
                self.c.add("isolation_queries_compared", pre.1.len() as u64);
                None
            }
        }
    }

    pub fn own(&mut self, owned: bool, step: usize, key: &str, msg: String) -> CaseEnd {
        if owned {
            vio(step, key, msg)
        } else {
            self.c.inc(&format!("truncated_by_{}", key.split(':').next().unwrap_or("x")));
            CaseEnd::Truncated(format!("{key}: {msg}"))
        }
    }

    #[allow(clippy::too_many_arguments)]
    fn build(
        &mut self,
        world: &World,
        wtxn: &mut RwTxn,
        model: &mut Model,
        op_ix: usize,
        opts: &BuildOpts,
        step: usize,
        rng: &mut StdRng,
        tmpdir: Option<&std::path::Path>,
        desc: &str,
    ) -> Option<CaseEnd> {
        let p = self.p;
        let ck = p.checks.clone();
        let db = world.db;
        let (index, metric, dims, n) = {
            let m = &model.ix[op_ix];
            (m.index, m.metric, m.dims, m.items.len())
        };
        let pre_iso = if ck.isolation && model.ix.len() > 1 { Some(rawdb::dump(wtxn, db).unwrap()) } else { None };
        let pre_answers = if ck.isolation && model.ix.len() > 1 { foreign_answers(wtxn, db, model, op_ix, None) } else { None };
        let prev_roots = self.prev_forest.get(&index).and_then(|f| f.metadata.as_ref()).map_or(0, |m| m.roots.len());
        let trees_bound = opts.n_trees.unwrap_or(n.min(dims.max(1))).max(prev_roots) + 1;
        let batches = if opts.memory.is_some() { n / 200 + 2 } else { 0 };
        let limit = poll_bound(n, trees_bound, batches);
        let loop_limit = loop_bound(n, trees_bound);
        // one build in five goes through a builder that was cancelled once before (at its first poll)
        if let Ok(mut g) = STALL_CONTEXT.lock() {
            if let Some(c) = g.as_mut() {
                c.2 = format!("{desc} over {n} items ({} {}d)", metric.short(), dims);
            }
        }
        let warmup = opts.rng_seed % 5 == 0;
        if warmup {
            self.c.inc("builds_on_a_reused_builder");
        }
        #[cfg(arroy_verif)]
        {
            if ck.id_log {
                arroy::verif::log_start();
            }
            if ck.chaos {
                arroy::verif::chaos_arm(opts.rng_seed | 1, 35);
            }
        }
        let out = with_metric!(metric, D, {
            let w = self.writers.get::<D>(db, index, metric, dims, tmpdir);
            run_build::<D>(wtxn, w, opts, limit, loop_limit, None, warmup)
        });
        #[cfg(arroy_verif)]
        {
            if ck.chaos {
                self.c.add("chaos_points_hit", arroy::verif::chaos_hits());
                arroy::verif::chaos_arm(0, 0);
            }
            if ck.id_log {
                let (used, events) = arroy::verif::log_stop();
                if matches!(out, BuildOutcome::Ok { .. }) {
                    if let Err(e) = crate::props::c13::check_id_log(&used, &events, &mut self.c, &mut self.sigs) {
                        return Some(vio(step, "idlog", format!("{desc} over {n} items, {} threads: {e}", opts.threads)));
                    }
                }
            }
        }
        let owned = ck.build_must_succeed;
        match out {
            BuildOutcome::Ok { polls, ticks } => {
                self.c.inc("builds_ok");
                self.c.max("max_polls", polls);
                self.c.max("max_polls_permille_of_bound", polls * 1000 / limit);
                self.c.max("max_loop_ticks", ticks[0].max(ticks[1]));
                self.c.max("max_loop_ticks_permille_of_bound", ticks[0].max(ticks[1]) * 1000 / loop_limit);
                if opts.threads > 1 {
                    self.c.inc("builds_multithread");
                }
                if let Some(mem) = opts.memory {
                    self.c.inc("builds_with_memory_hint");
                    let cap = opts.capacity(dims);
                    let item_bytes = 1 + metric.header_size() + metric.vector_bytes(dims);
                    if n > 200 {
                        self.c.inc("c14_items_above_min_batch");
                    }
                    // the region of the endless-loop defect: the 200-item minimum batch fits one bucket
                    if cap >= 200 && n > cap && mem / 4096 * (4096 / item_bytes.min(4096)).max(1) <= cap {
                        self.c.inc("c14_batch_fits_one_bucket");
                    }
                }
            }
            BuildOutcome::Err { err, .. } => {
                return Some(self.own(owned, step, "build:error", format!("{desc} over {n} items failed: {err}")));
            }
            BuildOutcome::Panic(pm) => {
                return Some(self.own(owned, step, "build:panic", format!("{desc} over {n} items panicked: {pm}")));
            }
            BuildOutcome::NonTerminating { polls, ticks } => {
                return Some(self.own(
                    ck.termination,
                    step,
                    "build:nonterminating",
                    format!("{desc} over {n} items ({} {dims}d) exceeded its logical clock: {polls} cancellation polls (bound {limit}), build-loop iterations {ticks:?} (bound {loop_limit}): declared non-terminating", metric.short()),
                ));
            }
        }
        {
            let m = &mut model.ix[op_ix];
            let cap = opts.capacity(dims);
            // the single-bucket shortcut restarts the forest from scratch
            if m.items.len() <= cap {
                m.forest_reset();
                m.const_capacity = Some(cap);
            } else if !m.has_metadata {
                m.forest_reset();
                m.const_capacity = Some(cap);
            } else if m.const_capacity != Some(cap) {
                m.capacity_mixed = true;
            }
            m.has_metadata = true;
            m.dirty = false;
            m.last_opts = Some(opts.clone());
        }
        let m = model.ix[op_ix].clone();
        // isolation: a build must not touch other indexes
        if let Some(pre) = &pre_iso {
            let post = rawdb::dump(wtxn, db).unwrap();
            let a = rawdb::dump_without_index(pre, index);
            let b = rawdb::dump_without_index(&post, index);
            if let Some(d) = rawdb::first_diff(&a, &b) {
                return Some(vio(step, "isolation:bytes", format!("{desc} on index {index} changed another index: {d}")));
            }
            self.c.inc("isolation_dumps_compared");
            self.c.add("isolation_foreign_entries", a.len() as u64);
        }
        if let Some(pa) = &pre_answers {
            if let Some(end) = self.compare_foreign_answers(wtxn, db, model, op_ix, pa, step, desc) {
                return Some(end);
            }
        }
        // structural monitors on the raw dump
        let mut decoded: Option<RawIndex> = None;
        let mut forest_broken: Option<String> = None;
        {
            let d = rawdb::dump(wtxn, db).unwrap();
            let own = rawdb::dump_of_index(&d, index);
            let dec = match rawdb::decode(&own, &model.decl()) {
                Ok(mut x) => x.remove(&index).unwrap_or_default(),
                Err(e) => {
                    return Some(self.own(ck.decode || ck.forest, step, "decode", format!("after {desc}: the database does not decode under the reference layout: {e}")));
                }
            };
            self.c.inc("dumps_decoded");
            self.c.add("entries_decoded", own.len() as u64);
            if ck.decode {
                match check_headers(&dec, &model.ix[op_ix]) {
                    Ok(k) => self.c.add("leaf_headers_checked", k),
                    Err(e) => return Some(vio(step, "decode:header", format!("after {desc}: {e}"))),
                }
            }
            {
                let mut walker_stats: Option<forest::ForestStats> = None;
                match forest::check_forest(&dec, dims, metric.disk_name()) {
                    Ok(st) => {
                        self.c.inc("forests_checked");
                        self.c.add("trees_walked", st.n_trees as u64);
                        self.c.add("tree_nodes_walked", st.n_tree_nodes as u64);
                        self.c.max("max_depth", st.max_depth as u64);
                        if st.n_item_children > 0 {
                            self.c.inc("forests_with_item_children");
                        }
                        if st.n_zero_normals > 0 {
                            self.c.inc("forests_with_zero_normals");
                        }
                        if st.n_splits > 0 {
                            self.c.inc("forests_with_splits");
                            self.sigs.push(st.shape);
                        }
                        walker_stats = Some(st.clone());
                        self.transitions(index, &dec);
                        if ck.options {
                            if let Some(end) = self.check_options(&m, opts, &dec, &st, step, desc) {
                                return Some(end);
                            }
                            // searches on any non-empty index return results
                            if !m.items.is_empty() {
                                let q = m.items.values().next().unwrap().clone();
                                let r = with_metric!(metric, D, guarded(|| {
                                    let reader = Reader::<D>::open(wtxn, index, adb::<D>(db))?;
                                    let n_trees = reader.n_trees();
                                    reader.nns(1).by_vector(wtxn, &q).map(|r| (r.len(), n_trees))
                                }));
                                match r {
                                    Ok(Ok((1, _))) => self.c.inc("opt_search_returns_a_result"),
                                    other => {
                                        return Some(vio(step, "options", format!("after {desc}: nns(1) on a non-empty index ({} items) -> {other:?}, expected exactly one result", m.items.len())));
                                    }
                                }
                            }
                        }
                    }
                    Err(e) => {
                        let msg = format!("after {desc} over {n} items ({} {}d): {e}", metric.short(), dims);
                        if ck.forest {
                            return Some(vio(step, "forest", msg));
                        }
                        // not ours: let the monitors this profile owns look at the state first
                        forest_broken = Some(msg);
                    }
                }
                if ck.forest && forest_broken.is_none() {
                    // secondary oracle: upstream's own walker; a disagreement is a harness inconsistency
                    let r = with_metric!(metric, D, guarded(|| {
                        Reader::<D>::open(wtxn, index, adb::<D>(db)).and_then(|r| r.assert_validity(wtxn))
                    }));
                    match r {
                        Ok(Ok(())) => self.c.inc("upstream_walker_agreed"),
                        other => return Some(CaseEnd::Inconclusive(format!("after {desc}: harness walker accepts the forest but Reader::assert_validity says {other:?}"))),
                    }
                    // the crate's own statistics over the same transaction against what the walker counted
                    if let Some(ws) = &walker_stats {
                        let r = with_metric!(metric, D, guarded(|| Reader::<D>::open(wtxn, index, adb::<D>(db)).and_then(|r| r.stats(wtxn).map(|s| (s, r.n_trees(), r.n_items())))));
                        match r {
                            Ok(Ok((s, nt, ni))) => {
                                let splits: usize = s.tree_stats.iter().map(|t| t.split_nodes).sum();
                                let buckets: usize = s.tree_stats.iter().map(|t| t.descendants).sum();
                                let depth = s.tree_stats.iter().map(|t| t.depth).max().unwrap_or(0);
                                let theirs = (s.leaf, ni, s.tree_stats.len(), nt, splits, buckets, depth);
                                let ours = (ws.n_items, ws.n_items, ws.n_trees, ws.n_trees, ws.n_splits, ws.n_buckets, ws.max_depth);
                                if theirs != ours {
                                    return Some(CaseEnd::Inconclusive(format!("after {desc}: Reader::stats (items, n_items, trees, n_trees, splits, buckets, depth) = {theirs:?}, the walker over the raw dump counted {ours:?}")));
                                }
                                self.c.inc("reader_stats_agreed");
                            }
                            other => return Some(CaseEnd::Inconclusive(format!("after {desc}: Reader::stats -> {other:?}"))),
                        }
                    }
                }
            }
            decoded = Some(dec);
        }
        if ck.routing && forest_broken.is_none() {
            if let Some(dec) = &decoded {
                if let Err(e) = with_metric!(metric, D, crate::props::c04::check_routing::<D>(wtxn, db, &m, dec, rng, &mut self.c)) {
                    return Some(vio(step, "routing", format!("after {desc}: {e}")));
                }
            }
        }
        if ck.exact {
            if let Err(e) = with_metric!(metric, D, check_exact::<D>(wtxn, db, &m, rng, p.queries_per_build.max(1), ck.accuracy, &mut self.c)) {
                return Some(vio(step, "exact", format!("after {desc} ({} {}d): {e}", metric.short(), dims)));
            }
        }
        if ck.lattice {
            if let Err(e) = with_metric!(metric, D, crate::props::c03::check_lattice::<D>(wtxn, db, &m, rng, p.queries_per_build.max(1), ck.accuracy, &mut self.c)) {
                return Some(vio(step, "lattice", format!("after {desc} ({} {}d): {e}", metric.short(), dims)));
            }
        }
        if ck.metric_change {
            if let Some(old) = m.prev_metric.filter(|o| *o != metric) {
                let (k, d) = with_metric!(old, OD, open_kind::<OD>(wtxn, db, index));
                if k != OpenKind::Unmatching {
                    return Some(vio(step, "metric-change:old-opens", format!("after {desc}: opening under the old metric {} -> {d}, expected UnmatchingDistance", old.short())));
                }
                self.c.inc("metric_change_old_refused");
            }
        }
        if ck.store {
            let probe: Vec<u32> = m.items.keys().copied().take(5).collect();
            if let Err(e) = with_metric!(metric, D, check_store::<D>(wtxn, db, &m, &probe, true, &mut self.c)) {
                return Some(vio(step, "store:after-build", format!("after {desc}: building changed the item store: {e}")));
            }
        }
        if let Some(msg) = forest_broken {
            return Some(self.own(false, step, "forest", msg));
        }
        if let Some(dec) = decoded {
            self.prev_forest.insert(index, dec);
        }
        None
    }

    /// Coverage counters derived from consecutive decoded forests (no hook needed).
    fn transitions(&mut self, index: u16, now: &RawIndex) {
        use crate::rawdb::TreeNode;
        let Some(prev) = self.prev_forest.get(&index) else {
            return;
        };
        let (Some(pm), Some(nm)) = (&prev.metadata, &now.metadata) else { return };
        self.c.inc("incremental_builds_observed");
        if nm.roots.len() > pm.roots.len() {
            self.c.inc("tr_trees_added");
        }
        if nm.roots.len() < pm.roots.len() {
            self.c.inc("tr_trees_removed");
        }
        let mut item_child_to_bucket = false;
        let mut collapsed = false;
        let mut resplit = false;
        let mut recycled = false;
        for (id, node) in &now.trees {
            match (prev.trees.get(id), node) {
                (Some(TreeNode::Bucket(_)), TreeNode::Split { .. }) => resplit = true,
                (Some(TreeNode::Split { .. }), TreeNode::Bucket(_)) => collapsed = true,
                (None, _) => {
                    if prev.trees.keys().next_back().map_or(false, |mx| id < mx) {
                        recycled = true;
                    }
                }
                _ => {}
            }
            if let (Some(TreeNode::Split { left: pl, right: pr, .. }), TreeNode::Split { left, right, .. }) = (prev.trees.get(id), node) {
                for (a, b) in [(pl, left), (pr, right)] {
                    if a.kind == rawdb::KIND_ITEM && b.kind == rawdb::KIND_TREE {
                        item_child_to_bucket = true;
                    }
                }
            }
        }
        if item_child_to_bucket {
            self.c.inc("tr_item_child_to_bucket");
        }
        if collapsed {
            self.c.inc("tr_split_collapsed");
        }
        if resplit {
            self.c.inc("tr_bucket_resplit");
        }
        if recycled {
            self.c.inc("tr_node_id_recycled");
        }
    }

    fn check_options(&mut self, m: &IndexModel, opts: &BuildOpts, dec: &RawIndex, st: &ForestStats, step: usize, desc: &str) -> Option<CaseEnd> {
        let n = m.items.len();
        let cap = opts.capacity(m.dims);
        let roots = st.n_trees;
        let fail = |msg: String| Some(vio(step, "options", format!("after {desc} ({} {}d, {n} items, capacity {cap}): {msg}", m.metric.short(), m.dims)));
        if n == 0 {
            if roots != 0 {
                return fail(format!("empty index has {roots} trees"));
            }
            self.c.inc("opt_empty");
        } else if n <= cap {
            if roots != 1 {
                return fail(format!("index fits one bucket but has {roots} trees"));
            }
            self.c.inc("opt_single_bucket");
        } else {
            match opts.n_trees {
                Some(k) => {
                    if roots != k {
                        return fail(format!("requested {k} trees, forest has {roots}"));
                    }
                    self.c.inc("opt_explicit_trees");
                }
                None => {
                    if roots < 1 {
                        return fail("automatic tree count produced no tree for a non-empty index".to_string());
                    }
                    self.c.inc("opt_auto_trees");
                }
            }
        }
        if let (Some(c0), false) = (m.const_capacity, m.capacity_mixed) {
            for (id, len) in forest::bucket_sizes(dec) {
                if len as usize > c0 {
                    return fail(format!("bucket {id} holds {len} items, capacity is {c0} (constant since the forest was started)"));
                }
            }
            self.c.inc("opt_capacity_checked");
        }
        None
    }
}

/// C16, header semantics of the reference layout: what the 4 (8 for DotProduct) header bytes of
/// every leaf must contain right after a successful build.
pub fn check_headers(dec: &RawIndex, m: &IndexModel) -> Result<u64, String> {
    let f = |b: &[u8]| f32::from_ne_bytes(b[0..4].try_into().unwrap());
    let mut checked = 0u64;
    let norm_of = |bytes: &[u8]| -> f64 {
        let mut s = 0f64;
        for x in rawdb::f32s_of(bytes) {
            s += x as f64 * x as f64;
        }
        s.sqrt()
    };
    // DotProduct: (extra_dim, norm) = (sqrt(M^2 - |v|^2), M^2) with M the largest norm of the index
    let max_norm = if m.metric == Metric::DotProduct { dec.items.values().map(|it| norm_of(&it.vector)).fold(0f64, f64::max) } else { 0.0 };
    for (id, it) in &dec.items {
        let close = |got: f32, want: f64| (got as f64 - want).abs() <= 1e-3 * want.abs().max(1e-3);
        match m.metric {
            Metric::Euclidean | Metric::Manhattan | Metric::BqEuclidean | Metric::BqManhattan => {
                if f(&it.header) != 0.0 {
                    return Err(format!("item {id}: header of a {} leaf is {:e}, the reference layout stores a zero bias", m.metric.short(), f(&it.header)));
                }
            }
            Metric::Cosine => {
                let n = norm_of(&it.vector);
                if n.is_finite() && n < 1e18 && n > 1e-18 && !close(f(&it.header), n) {
                    return Err(format!("item {id}: cosine leaf header {:e}, the reference layout stores the vector's norm {n:e}", f(&it.header)));
                }
            }
            Metric::BqCosine => {
                let want = ((m.dims.div_ceil(64) * 64) as f64).sqrt();
                if !close(f(&it.header), want) {
                    return Err(format!("item {id}: binary quantized cosine leaf header {:e}, the reference layout stores sqrt(padded length) = {want:e}", f(&it.header)));
                }
            }
            Metric::DotProduct => {
                let n = norm_of(&it.vector);
                // a vector with NaN / infinite components has no defined header (C20 territory)
                if n.is_finite() && max_norm.is_finite() && max_norm < 1e18 && max_norm > 1e-15 {
                    let extra = (max_norm * max_norm - n * n).max(0.0).sqrt();
                    let got_extra = f(&it.header[0..4]);
                    let got_norm = f(&it.header[4..8]);
                    // sqrt of a difference of squares loses precision when |v| is close to M
                    let ok_extra = (got_extra as f64 - extra).abs() <= 2e-3 * max_norm;
                    if !close(got_norm, max_norm * max_norm) || !ok_extra {
                        return Err(format!(
                            "item {id}: dot-product leaf header (extra_dim, norm) = ({got_extra:e}, {got_norm:e}), the reference layout stores ({extra:e}, {:e})",
                            max_norm * max_norm
                        ));
                    }
                }
            }
        }
        checked += 1;
    }
    Ok(checked)
}

/// Reference encoding of an item value for f32 metrics / quantised ones (used by the C19 twin).
/// DotProduct and Cosine headers depend on arroy's own arithmetic (norms), so the twin is only
/// produced where the header is a constant.
pub fn encode_item_value(metric: Metric, dims: usize, v: &[f32]) -> Option<Vec<u8>> {
    let mut out = vec![0u8];
    match metric {
        Metric::Euclidean | Metric::Manhattan | Metric::BqEuclidean | Metric::BqManhattan => out.extend_from_slice(&0f32.to_ne_bytes()),
        Metric::DotProduct => out.extend_from_slice(&[0u8; 8]),
        Metric::Cosine | Metric::BqCosine => return None,
    }
    if metric.is_bq() {
        for w in 0..dims.div_ceil(64) {
            let mut word = 0u64;
            for k in 0..64 {
                let i = w * 64 + k;
                if i < dims && v[i].is_sign_positive() {
                    word |= 1 << k;
                }
            }
            out.extend_from_slice(&word.to_ne_bytes());
        }
    } else {
        for x in v {
            out.extend_from_slice(&x.to_ne_bytes());
        }
    }
    Some(out)
}

pub fn case_sample(case: &Case, max_ops: usize) -> J {
    let mut ops = Vec::new();
    for op in case.ops.iter().take(max_ops) {
        ops.push(J::s(op.describe(&case.model)));
    }
    if case.ops.len() > max_ops {
        ops.push(J::s(format!("... {} more operations", case.ops.len() - max_ops)));
    }
    J::obj()
        .set("case_seed", J::s(format!("{:#x}", case.seed)))
        .set(
            "indexes",
            J::Arr(case.model.ix.iter().map(|m| J::s(format!("index {} {} {}d", m.index, m.metric.short(), m.dims))).collect()),
        )
        .set("values", J::s(format!("{:?}", case.values)))
        .set("ids", J::s(format!("{:?}", case.id_dist)))
        .set("history", J::Arr(ops))
}
