//! Small helpers: JSON writer (no serde in the lock file), seed hashing, counters.

use std::collections::BTreeMap;
use std::fmt::Write as _;

#[derive(Clone, Debug)]
pub enum J {
    Null,
    Bool(bool),
    Int(i128),
    Num(f64),
    Str(String),
    Arr(Vec<J>),
    Obj(Vec<(String, J)>),
}

impl J {
    pub fn obj() -> J {
        J::Obj(Vec::new())
    }
    pub fn s(s: impl Into<String>) -> J {
        J::Str(s.into())
    }
    pub fn i(i: impl TryInto<i128>) -> J {
        J::Int(i.try_into().ok().unwrap_or(i128::MAX))
    }
    pub fn set(mut self, k: &str, v: J) -> J {
        if let J::Obj(ref mut o) = self {
            o.push((k.to_string(), v));
        }
        self
    }
    pub fn push(&mut self, k: &str, v: J) {
        if let J::Obj(ref mut o) = self {
            o.push((k.to_string(), v));
        }
    }
    pub fn write(&self, out: &mut String) {
        match self {
            J::Null => out.push_str("null"),
            J::Bool(b) => out.push_str(if *b { "true" } else { "false" }),
            J::Int(i) => {
                let _ = write!(out, "{i}");
            }
            J::Num(f) => {
                if f.is_finite() {
                    let _ = write!(out, "{f}");
                } else {
                    let _ = write!(out, "\"{f}\"");
                }
            }
            J::Str(s) => {
                out.push('"');
                for c in s.chars() {
                    match c {
                        '"' => out.push_str("\\\""),
                        '\\' => out.push_str("\\\\"),
                        '\n' => out.push_str("\\n"),
                        '\r' => out.push_str("\\r"),
                        '\t' => out.push_str("\\t"),
                        c if (c as u32) < 0x20 => {
                            let _ = write!(out, "\\u{:04x}", c as u32);
                        }
                        c => out.push(c),
                    }
                }
                out.push('"');
            }
            J::Arr(a) => {
                out.push('[');
                for (i, v) in a.iter().enumerate() {
                    if i > 0 {
                        out.push(',');
                    }
                    v.write(out);
                }
                out.push(']');
            }
            J::Obj(o) => {
                out.push('{');
                for (i, (k, v)) in o.iter().enumerate() {
                    if i > 0 {
                        out.push(',');
                    }
                    J::Str(k.clone()).write(out);
                    out.push(':');
                    v.write(out);
                }
                out.push('}');
            }
        }
    }
    pub fn to_string(&self) -> String {
        let mut s = String::new();
        self.write(&mut s);
        s
    }
}

/// splitmix64 step, used to derive case seeds: `hash(VERIF_SEED, property, i)`.
pub fn mix(mut z: u64) -> u64 {
    z = z.wrapping_add(0x9E37_79B9_7F4A_7C15);
    z = (z ^ (z >> 30)).wrapping_mul(0xBF58_476D_1CE4_E5B9);
    z = (z ^ (z >> 27)).wrapping_mul(0x94D0_49BB_1331_11EB);
    z ^ (z >> 31)
}

pub fn hash_str(s: &str) -> u64 {
    let mut h = 0xcbf2_9ce4_8422_2325u64;
    for b in s.bytes() {
        h ^= b as u64;
        h = h.wrapping_mul(0x0000_0100_0000_01B3);
    }
    h
}

pub fn case_seed(verif_seed: u64, prop: &str, i: u64) -> u64 {
    mix(mix(verif_seed ^ hash_str(prop)).wrapping_add(mix(i)))
}

/// Named counters a case reports; summed by the driver.
#[derive(Default, Clone, Debug)]
pub struct Counters(pub BTreeMap<String, u64>);

impl Counters {
    pub fn add(&mut self, k: &str, n: u64) {
        *self.0.entry(k.to_string()).or_insert(0) += n;
    }
    pub fn inc(&mut self, k: &str) {
        self.add(k, 1)
    }
    pub fn max(&mut self, k: &str, n: u64) {
        let e = self.0.entry(k.to_string()).or_insert(0);
        if n > *e {
            *e = n;
        }
    }
    pub fn get(&self, k: &str) -> u64 {
        self.0.get(k).copied().unwrap_or(0)
    }
    pub fn to_json(&self) -> J {
        J::Obj(self.0.iter().map(|(k, v)| (k.clone(), J::i(*v))).collect())
    }
}

pub fn hex(bytes: &[u8]) -> String {
    let mut s = String::with_capacity(bytes.len() * 2);
    for b in bytes {
        let _ = write!(s, "{b:02x}");
    }
    s
}

pub fn unhex(s: &str) -> Vec<u8> {
    let b = s.as_bytes();
    (0..b.len() / 2)
        .map(|i| u8::from_str_radix(std::str::from_utf8(&b[2 * i..2 * i + 2]).unwrap(), 16).unwrap())
        .collect()
}

pub fn fmt_f32s(v: &[f32]) -> String {
    let mut s = String::from("[");
    for (i, x) in v.iter().enumerate() {
        if i > 0 {
            s.push(',');
        }
        if i >= 8 {
            let _ = write!(s, "..{} more", v.len() - 8);
            break;
        }
        let _ = write!(s, "{x:?}");
    }
    s.push(']');
    s
}
