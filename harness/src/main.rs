//! arroy-verif: runtime-monitoring harness for meilisearch/arroy (see /verif/DESIGN.md).
//!
//! Worker protocol (stdout, line oriented, parsed by /verif/check):
//!   BEGIN <case-seed>            a case starts (a crash between BEGIN and END is attributed to it)
//!   END <case-seed> <verdict>    ok | truncated | violation | inconclusive
//!   VIOL {json}                  details of a violation (property, key, msg, replay material)
//!   INCONCLUSIVE {json}
//!   SUMMARY {json}               counters, distinct signatures, samples (once, at the end)

mod engine;
mod forest;
mod metric;
mod oracle;
mod props;
mod rawdb;
mod util;

use std::collections::BTreeSet;
use std::io::Write;

use util::{case_seed, Counters, J};

pub struct Args {
    pub cmd: String,
    pub prop: String,
    pub kv: std::collections::HashMap<String, String>,
}

impl Args {
    pub fn get_u64(&self, k: &str, d: u64) -> u64 {
        self.kv.get(k).map(|v| parse_u64(v)).unwrap_or(d)
    }
    pub fn get(&self, k: &str) -> Option<&str> {
        self.kv.get(k).map(|s| s.as_str())
    }
}

pub fn parse_u64(s: &str) -> u64 {
    if let Some(h) = s.strip_prefix("0x") {
        u64::from_str_radix(h, 16).expect("hex number")
    } else {
        s.parse().expect("number")
    }
}

fn parse_args() -> Args {
    let a: Vec<String> = std::env::args().collect();
    let cmd = a.get(1).cloned().unwrap_or_default();
    let prop = a.get(2).cloned().unwrap_or_default();
    let mut kv = std::collections::HashMap::new();
    let mut i = 3;
    while i < a.len() {
        if let Some(k) = a[i].strip_prefix("--") {
            let v = a.get(i + 1).cloned().unwrap_or_default();
            kv.insert(k.to_string(), v);
            i += 2;
        } else {
            i += 1;
        }
    }
    Args { cmd, prop, kv }
}

pub fn emit(tag: &str, j: &J) {
    let out = std::io::stdout();
    let mut l = out.lock();
    let _ = writeln!(l, "{tag} {}", j.to_string());
    let _ = l.flush();
}

pub fn line(s: &str) {
    let out = std::io::stdout();
    let mut l = out.lock();
    let _ = writeln!(l, "{s}");
    let _ = l.flush();
}

fn explore(args: &Args) {
    let prop = args.prop.as_str();
    let thorough = args.get("tier") == Some("thorough");
    let plan = props::explorer_plan(prop, thorough).unwrap_or_else(|| panic!("no explorer plan for {prop}"));
    let seed = args.get_u64("seed", 0);
    let shard = args.get_u64("shard", 0);
    let nshards = args.get_u64("nshards", 1);
    let cases = args.get_u64("cases", if thorough { plan.cases.1 } else { plan.cases.0 });
    let replay = args.kv.get("replay").map(|s| parse_u64(s));
    engine::install_quiet_panic_hook();
    let mut total = Counters::default();
    let mut sigs: BTreeSet<u64> = BTreeSet::new();
    let mut samples: Vec<J> = Vec::new();
    let t0 = std::time::Instant::now();
    let list: Vec<u64> = match replay {
        Some(cs) => vec![cs],
        None => (0..cases).filter(|i| i % nshards == shard).map(|i| case_seed(seed, prop, i)).collect(),
    };
    for cs in list {
        line(&format!("BEGIN {cs:#x}"));
        *engine::STALL_CONTEXT.lock().unwrap() = Some((prop.to_string(), format!("{cs:#x}"), "a build of this case".to_string()));
        let case = match plan.custom_gen {
            Some(g) => g(cs, &plan.profile),
            None => engine::gen_case(cs, &plan.profile),
        };
        let rep = engine::run_case(&case, &plan.profile);
        total.inc("cases");
        for (k, v) in &rep.counters.0 {
            if k.starts_with("max_") {
                total.max(k, *v);
            } else {
                total.add(k, *v);
            }
        }
        sigs.extend(rep.sigs.iter().copied());
        if samples.len() < 2 && rep.counters.get("builds_ok") > 0 && (case.ops.len() < 60 || plan.custom_gen.is_some()) {
            samples.push(engine::case_sample(&case, 40));
        }
        let verdict = match &rep.end {
            engine::CaseEnd::Done => {
                total.inc("cases_completed");
                "ok"
            }
            engine::CaseEnd::Truncated(why) => {
                total.inc("cases_truncated");
                if replay.is_some() {
                    line(&format!("NOTE truncated: {why}"));
                }
                "truncated"
            }
            engine::CaseEnd::Violation(v) => {
                total.inc("violations");
                let tail: Vec<J> = rep.log.iter().rev().take(12).rev().map(|s| J::s(s.clone())).collect();
                let j = J::obj()
                    .set("property", J::s(prop))
                    .set("case_seed", J::s(format!("{cs:#x}")))
                    .set("key", J::s(v.key.clone()))
                    .set("step", J::i(v.step as u64))
                    .set("msg", J::s(v.msg.clone()))
                    .set("config", engine::case_sample(&case, 0))
                    .set("last_ops", J::Arr(tail))
                    .set("n_ops", J::i(case.ops.len() as u64));
                emit("VIOL", &j);
                "violation"
            }
            engine::CaseEnd::Inconclusive(why) => {
                total.inc("inconclusive");
                emit("INCONCLUSIVE", &J::obj().set("property", J::s(prop)).set("case_seed", J::s(format!("{cs:#x}"))).set("msg", J::s(why.clone())));
                "inconclusive"
            }
        };
        line(&format!("END {cs:#x} {verdict}"));
    }
    if samples.is_empty() {
        // fall back to whatever the first case was
        let cs = case_seed(seed, prop, shard);
        let c = match plan.custom_gen {
            Some(g) => g(cs, &plan.profile),
            None => engine::gen_case(cs, &plan.profile),
        };
        samples.push(engine::case_sample(&c, 25));
    }
    let j = J::obj()
        .set("property", J::s(prop))
        .set("counters", total.to_json())
        .set("sigs", J::Arr(sigs.iter().map(|s| J::s(format!("{s:x}"))).collect()))
        .set("samples", J::Arr(samples))
        .set("rule", J::s(plan.rule))
        .set("required", J::Arr(plan.required.iter().map(|s| J::s(*s)).collect()))
        .set("wall_s", J::Num(t0.elapsed().as_secs_f64()));
    emit("SUMMARY", &j);
}

fn main() {
    let args = parse_args();
    match args.cmd.as_str() {
        "noop" => {}
        "explore" => explore(&args),
        "kernels" => props::c11::run(&args),
        "bq" => props::c12::run(&args),
        "selftest" => props::selftest::run(&args),
        "fixtures" => props::c16::run(&args),
        "fixtures-gen" => props::c16::generate(&args),
        "upgrade" => props::c17::run(&args),
        "snap" => props::c08::run(&args),
        "crash-child" => props::c09::child(&args),
        "crash-verify" => props::c09::verify(&args),
        "faults" => props::c10::run(&args),
        "ids" => props::c13::run(&args),
        other => {
            eprintln!("unknown command {other:?}");
            std::process::exit(64);
        }
    }
}
