//! Raw dump of the LMDB database through heed `Bytes` codecs and an *independent* decoder of the
//! reference on-disk layout (DESIGN.md Appendix A). Nothing here uses arroy's codecs.

use std::collections::BTreeMap;

use heed::types::Bytes;
use heed::RoTxn;
use roaring::RoaringBitmap;

use crate::metric::Metric;

pub type RawDb = heed::Database<Bytes, Bytes>;
pub type Dump = Vec<(Vec<u8>, Vec<u8>)>;

pub const KIND_METADATA: u8 = 0;
pub const KIND_UPDATED: u8 = 1;
pub const KIND_TREE: u8 = 2;
pub const KIND_ITEM: u8 = 3;

pub fn dump(rtxn: &RoTxn, db: RawDb) -> Result<Dump, String> {
    let mut out = Vec::new();
    for r in db.iter(rtxn).map_err(|e| format!("raw iter: {e}"))? {
        let (k, v) = r.map_err(|e| format!("raw iter: {e}"))?;
        out.push((k.to_vec(), v.to_vec()));
    }
    Ok(out)
}

/// Entries of the dump whose 2-byte index prefix differs from `index`.
pub fn dump_without_index(d: &Dump, index: u16) -> Dump {
    let p = index.to_be_bytes();
    d.iter().filter(|(k, _)| k.len() < 2 || k[0..2] != p).cloned().collect()
}

pub fn dump_of_index(d: &Dump, index: u16) -> Dump {
    let p = index.to_be_bytes();
    d.iter().filter(|(k, _)| k.len() >= 2 && k[0..2] == p).cloned().collect()
}

#[derive(Clone, Copy, Debug, PartialEq, Eq, PartialOrd, Ord)]
pub struct RawKey {
    pub index: u16,
    pub kind: u8,
    pub id: u32,
}

pub fn encode_key(index: u16, kind: u8, id: u32) -> [u8; 8] {
    let mut k = [0u8; 8];
    k[0..2].copy_from_slice(&index.to_be_bytes());
    k[2] = kind;
    k[3..7].copy_from_slice(&id.to_be_bytes());
    k[7] = 0;
    k
}

pub fn parse_key(k: &[u8]) -> Result<RawKey, String> {
    if k.len() != 8 {
        return Err(format!("key of {} bytes (expected 8): {}", k.len(), crate::util::hex(k)));
    }
    let index = u16::from_be_bytes([k[0], k[1]]);
    let kind = k[2];
    let id = u32::from_be_bytes([k[3], k[4], k[5], k[6]]);
    if kind > 3 {
        return Err(format!("key with unknown kind {kind}: {}", crate::util::hex(k)));
    }
    if k[7] != 0 {
        return Err(format!("key with non-zero padding: {}", crate::util::hex(k)));
    }
    Ok(RawKey { index, kind, id })
}

#[derive(Clone, Copy, Debug, PartialEq, Eq, PartialOrd, Ord, Hash)]
pub struct Child {
    /// KIND_TREE or KIND_ITEM
    pub kind: u8,
    pub id: u32,
}

#[derive(Clone, Debug)]
pub enum TreeNode {
    Bucket(RoaringBitmap),
    Split { left: Child, right: Child, normal: Vec<u8> },
}

#[derive(Clone, Debug)]
pub struct RawMeta {
    pub name: String,
    pub dims: u32,
    pub items: RoaringBitmap,
    pub roots: Vec<u32>,
}

#[derive(Clone, Debug)]
pub struct RawItem {
    pub header: Vec<u8>,
    pub vector: Vec<u8>,
}

#[derive(Clone, Debug, Default)]
pub struct RawIndex {
    pub metadata: Option<RawMeta>,
    pub version: Option<(u32, u32, u32)>,
    pub updated: Vec<u32>,
    pub trees: BTreeMap<u32, TreeNode>,
    pub items: BTreeMap<u32, RawItem>,
}

fn parse_roaring_exact(bytes: &[u8], what: &str) -> Result<RoaringBitmap, String> {
    let mut rd: &[u8] = bytes;
    let bm = RoaringBitmap::deserialize_from(&mut rd).map_err(|e| format!("{what}: roaring does not parse: {e}"))?;
    if !rd.is_empty() {
        return Err(format!("{what}: {} trailing bytes after the roaring bitmap", rd.len()));
    }
    Ok(bm)
}

pub fn decode_metadata(v: &[u8]) -> Result<RawMeta, String> {
    let nul = v.iter().position(|b| *b == 0).ok_or("metadata: no NUL after the metric name")?;
    let name = std::str::from_utf8(&v[..nul]).map_err(|_| "metadata: metric name is not utf8")?.to_string();
    let rest = &v[nul + 1..];
    if rest.len() < 8 {
        return Err("metadata: truncated after the name".into());
    }
    let dims = u32::from_be_bytes(rest[0..4].try_into().unwrap());
    let blen = u32::from_be_bytes(rest[4..8].try_into().unwrap()) as usize;
    let rest = &rest[8..];
    if rest.len() < blen {
        return Err("metadata: truncated item bitmap".into());
    }
    let items = parse_roaring_exact(&rest[..blen], "metadata items")?;
    let rest = &rest[blen..];
    if rest.len() % 4 != 0 {
        return Err(format!("metadata: roots are {} bytes, not a multiple of 4", rest.len()));
    }
    let roots = rest.chunks_exact(4).map(|c| u32::from_ne_bytes(c.try_into().unwrap())).collect();
    Ok(RawMeta { name, dims, items, roots })
}

pub fn encode_metadata(m: &RawMeta) -> Vec<u8> {
    let mut out = Vec::new();
    out.extend_from_slice(m.name.as_bytes());
    out.push(0);
    out.extend_from_slice(&m.dims.to_be_bytes());
    let mut bm = Vec::new();
    m.items.serialize_into(&mut bm).unwrap();
    out.extend_from_slice(&(bm.len() as u32).to_be_bytes());
    out.extend_from_slice(&bm);
    for r in &m.roots {
        out.extend_from_slice(&r.to_ne_bytes());
    }
    out
}

fn parse_child(b: &[u8], what: &str) -> Result<Child, String> {
    let kind = b[0];
    if kind != KIND_TREE && kind != KIND_ITEM {
        return Err(format!("{what}: child of kind {kind} (expected 2=tree or 3=item)"));
    }
    Ok(Child { kind, id: u32::from_be_bytes(b[1..5].try_into().unwrap()) })
}

pub fn decode_tree_node(v: &[u8], metric: Metric, dims: usize, what: &str) -> Result<TreeNode, String> {
    match v.first() {
        Some(1) => Ok(TreeNode::Bucket(parse_roaring_exact(&v[1..], what)?)),
        Some(2) => {
            if v.len() < 11 {
                return Err(format!("{what}: split node of {} bytes", v.len()));
            }
            let left = parse_child(&v[1..6], what)?;
            let right = parse_child(&v[6..11], what)?;
            let normal = v[11..].to_vec();
            let want = metric.vector_bytes(dims);
            if normal.len() != want {
                return Err(format!("{what}: normal of {} bytes, expected {want} for {dims} dims", normal.len()));
            }
            Ok(TreeNode::Split { left, right, normal })
        }
        other => Err(format!("{what}: tree node with tag {other:?}")),
    }
}

pub fn decode_item(v: &[u8], metric: Metric, dims: usize, what: &str) -> Result<RawItem, String> {
    if v.first() != Some(&0) {
        return Err(format!("{what}: item with tag {:?}", v.first()));
    }
    let h = metric.header_size();
    let want = 1 + h + metric.vector_bytes(dims);
    if v.len() != want {
        return Err(format!(
            "{what}: item value of {} bytes, expected {want} (1 tag + {h} header + {} vector bytes for {dims} dims under {})",
            v.len(),
            metric.vector_bytes(dims),
            metric.short()
        ));
    }
    Ok(RawItem { header: v[1..1 + h].to_vec(), vector: v[1 + h..].to_vec() })
}

/// Decodes a whole dump. `decl(index)` gives the declared (metric, dims) of an index, from the
/// harness's model (never from what arroy stored).
pub fn decode(d: &Dump, decl: &dyn Fn(u16) -> Option<(Metric, usize)>) -> Result<BTreeMap<u16, RawIndex>, String> {
    let mut out: BTreeMap<u16, RawIndex> = BTreeMap::new();
    let mut prev: Option<RawKey> = None;
    for (k, v) in d {
        let key = parse_key(k)?;
        if let Some(p) = prev {
            if p >= key {
                return Err(format!("keys not in (index, kind, id) order: {p:?} then {key:?}"));
            }
        }
        prev = Some(key);
        let (metric, dims) =
            decl(key.index).ok_or_else(|| format!("key {key:?} belongs to an index nobody wrote to"))?;
        let what = format!("index {} kind {} id {}", key.index, key.kind, key.id);
        let ix = out.entry(key.index).or_default();
        match key.kind {
            KIND_METADATA => match key.id {
                0 => ix.metadata = Some(decode_metadata(v).map_err(|e| format!("{what}: {e}"))?),
                1 => {
                    if v.len() != 12 {
                        return Err(format!("{what}: version record of {} bytes", v.len()));
                    }
                    ix.version = Some((
                        u32::from_be_bytes(v[0..4].try_into().unwrap()),
                        u32::from_be_bytes(v[4..8].try_into().unwrap()),
                        u32::from_be_bytes(v[8..12].try_into().unwrap()),
                    ));
                }
                _ => return Err(format!("{what}: unknown metadata id")),
            },
            KIND_UPDATED => {
                if !v.is_empty() {
                    return Err(format!("{what}: updated mark with a {}-byte value", v.len()));
                }
                ix.updated.push(key.id);
            }
            KIND_TREE => {
                ix.trees.insert(key.id, decode_tree_node(v, metric, dims, &what)?);
            }
            KIND_ITEM => {
                ix.items.insert(key.id, decode_item(v, metric, dims, &what)?);
            }
            _ => unreachable!(),
        }
    }
    Ok(out)
}

/// f32 components of a stored (non-quantised) vector.
pub fn f32s_of(bytes: &[u8]) -> Vec<f32> {
    bytes.chunks_exact(4).map(|c| f32::from_ne_bytes(c.try_into().unwrap())).collect()
}

/// Sign bits of a stored quantised vector: bit k of word w = component 64w+k has a clear sign bit.
pub fn bq_bits_of(bytes: &[u8], dims: usize) -> Vec<bool> {
    let mut out = Vec::with_capacity(dims);
    for i in 0..dims {
        let w = u64::from_ne_bytes(bytes[(i / 64) * 8..(i / 64) * 8 + 8].try_into().unwrap());
        out.push((w >> (i % 64)) & 1 == 1);
    }
    out
}

/// True when every padding bit beyond `dims` is 0.
pub fn bq_padding_clear(bytes: &[u8], dims: usize) -> bool {
    let total = bytes.len() * 8;
    for i in dims..total {
        let w = u64::from_ne_bytes(bytes[(i / 64) * 8..(i / 64) * 8 + 8].try_into().unwrap());
        if (w >> (i % 64)) & 1 == 1 {
            return false;
        }
    }
    true
}

pub fn first_diff(a: &Dump, b: &Dump) -> Option<String> {
    use crate::util::hex;
    let am: BTreeMap<&[u8], &[u8]> = a.iter().map(|(k, v)| (k.as_slice(), v.as_slice())).collect();
    let bm: BTreeMap<&[u8], &[u8]> = b.iter().map(|(k, v)| (k.as_slice(), v.as_slice())).collect();
    for (k, v) in &am {
        match bm.get(k) {
            None => return Some(format!("key {} disappeared", hex(k))),
            Some(w) if w != v => {
                return Some(format!(
                    "value of key {} changed ({} -> {} bytes)",
                    hex(k),
                    v.len(),
                    w.len()
                ))
            }
            _ => {}
        }
    }
    for k in bm.keys() {
        if !am.contains_key(k) {
            return Some(format!("key {} appeared", hex(k)));
        }
    }
    None
}
