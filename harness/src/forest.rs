//! Structural walker over a decoded index: the C01 oracle (DESIGN.md §2.4).

use std::collections::BTreeSet;

use roaring::RoaringBitmap;

use crate::rawdb::{Child, RawIndex, TreeNode, KIND_ITEM, KIND_TREE};
use crate::util::mix;

#[derive(Clone, Debug, Default)]
pub struct ForestStats {
    pub n_items: u64,
    pub n_trees: usize,
    pub n_tree_nodes: usize,
    pub n_buckets: usize,
    pub n_splits: usize,
    pub n_item_children: usize,
    pub n_zero_normals: usize,
    pub max_bucket: u64,
    pub max_depth: usize,
    /// hash of the shape (ids excluded) — used to count distinct forest shapes observed
    pub shape: u64,
}

/// Checks every clause of C01 on one decoded index. `declared_dims` comes from the model.
pub fn check_forest(ix: &RawIndex, declared_dims: usize, expected_name: &str) -> Result<ForestStats, String> {
    let items: RoaringBitmap = ix.items.keys().copied().collect();
    let meta = ix.metadata.as_ref().ok_or("no metadata record after a successful build")?;
    if meta.name != expected_name {
        return Err(format!("metadata metric name {:?}, expected {:?}", meta.name, expected_name));
    }
    if meta.dims as usize != declared_dims {
        return Err(format!("metadata dimensions {} != declared {}", meta.dims, declared_dims));
    }
    if meta.items != items {
        let missing = &items - &meta.items;
        let extra = &meta.items - &items;
        return Err(format!(
            "metadata item set differs from the stored item keys: {} stored ids missing from it (e.g. {:?}), {} ids in it not stored (e.g. {:?})",
            missing.len(),
            missing.iter().next(),
            extra.len(),
            extra.iter().next()
        ));
    }
    if !ix.updated.is_empty() {
        return Err(format!("{} updated marks left after a successful build (e.g. {})", ix.updated.len(), ix.updated[0]));
    }
    let mut root_set = BTreeSet::new();
    for r in &meta.roots {
        if !root_set.insert(*r) {
            return Err(format!("root {r} listed twice in the metadata"));
        }
    }
    let mut st = ForestStats { n_items: items.len(), n_trees: meta.roots.len(), ..Default::default() };
    if items.is_empty() {
        if !meta.roots.is_empty() {
            return Err(format!("empty index with {} roots", meta.roots.len()));
        }
        if !ix.trees.is_empty() {
            return Err(format!("empty index with {} tree nodes left behind", ix.trees.len()));
        }
        return Ok(st);
    }
    let mut seen_nodes: BTreeSet<u32> = BTreeSet::new();
    let mut shape = 0x1234_5678u64;
    for root in &meta.roots {
        let mut reached = RoaringBitmap::new();
        let mut reached_count: u64 = 0;
        // iterative DFS: (child, depth)
        let mut stack = vec![(Child { kind: KIND_TREE, id: *root }, 1usize)];
        while let Some((c, depth)) = stack.pop() {
            st.max_depth = st.max_depth.max(depth);
            if c.kind == KIND_ITEM {
                if !items.contains(c.id) {
                    return Err(format!("tree rooted at {root} refers to item {} which is not stored", c.id));
                }
                if !reached.insert(c.id) {
                    return Err(format!("tree rooted at {root} reaches item {} twice", c.id));
                }
                reached_count += 1;
                st.n_item_children += 1;
                shape = mix(shape ^ 0x11 ^ (depth as u64) << 8);
                continue;
            }
            if c.kind != KIND_TREE {
                return Err(format!("tree rooted at {root} has a child of kind {}", c.kind));
            }
            let node = ix
                .trees
                .get(&c.id)
                .ok_or_else(|| format!("tree rooted at {root} refers to tree node {} which does not exist", c.id))?;
            if !seen_nodes.insert(c.id) {
                return Err(format!("tree node {} is reachable twice (shared between trees or within one)", c.id));
            }
            match node {
                TreeNode::Bucket(b) => {
                    st.n_buckets += 1;
                    st.max_bucket = st.max_bucket.max(b.len());
                    shape = mix(shape ^ 0x22 ^ b.len() << 8 ^ (depth as u64) << 40);
                    if b.is_empty() {
                        // an empty bucket reaches nothing; legal only if it does not make coverage fail
                    }
                    for id in b.iter() {
                        if !items.contains(id) {
                            return Err(format!("bucket {} of tree {root} holds item {id} which is not stored", c.id));
                        }
                        if !reached.insert(id) {
                            return Err(format!("tree rooted at {root} reaches item {id} twice (bucket {})", c.id));
                        }
                        reached_count += 1;
                    }
                }
                TreeNode::Split { left, right, normal } => {
                    st.n_splits += 1;
                    if normal.iter().all(|b| *b == 0) {
                        st.n_zero_normals += 1;
                    }
                    shape = mix(shape ^ 0x33 ^ (depth as u64) << 8);
                    stack.push((*right, depth + 1));
                    stack.push((*left, depth + 1));
                }
            }
        }
        if reached_count != items.len() || reached != items {
            let missing = &items - &reached;
            return Err(format!(
                "tree rooted at {root} reaches {} of the {} stored items; e.g. item {:?} is unreachable",
                reached.len(),
                items.len(),
                missing.iter().next()
            ));
        }
    }
    let orphans: Vec<u32> = ix.trees.keys().copied().filter(|k| !seen_nodes.contains(k)).collect();
    if !orphans.is_empty() {
        return Err(format!("{} tree nodes are not referenced by any tree (e.g. {})", orphans.len(), orphans[0]));
    }
    st.n_tree_nodes = seen_nodes.len();
    st.shape = mix(shape ^ st.n_trees as u64);
    Ok(st)
}

/// All (bucket id, cardinality) pairs — C15 capacity clause.
pub fn bucket_sizes(ix: &RawIndex) -> Vec<(u32, u64)> {
    ix.trees
        .iter()
        .filter_map(|(id, n)| match n {
            TreeNode::Bucket(b) => Some((*id, b.len())),
            _ => None,
        })
        .collect()
}
