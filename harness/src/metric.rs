//! The 7 metrics as a runtime enum + a macro that turns the enum into the arroy type parameter.

#[derive(Clone, Copy, Debug, PartialEq, Eq, Hash, PartialOrd, Ord)]
pub enum Metric {
    Euclidean,
    Manhattan,
    Cosine,
    DotProduct,
    BqEuclidean,
    BqManhattan,
    BqCosine,
}

pub const ALL_METRICS: [Metric; 7] = [
    Metric::Euclidean,
    Metric::Manhattan,
    Metric::Cosine,
    Metric::DotProduct,
    Metric::BqEuclidean,
    Metric::BqManhattan,
    Metric::BqCosine,
];

impl Metric {
    /// Name stored in the metadata record (reference layout, Appendix A of DESIGN.md).
    pub fn disk_name(self) -> &'static str {
        match self {
            Metric::Euclidean => "euclidean",
            Metric::Manhattan => "manhattan",
            Metric::Cosine => "cosine",
            Metric::DotProduct => "dot-product",
            Metric::BqEuclidean => "binary quantized euclidean",
            Metric::BqManhattan => "binary quantized manhattan",
            Metric::BqCosine => "binary quantized cosine",
        }
    }
    pub fn short(self) -> &'static str {
        match self {
            Metric::Euclidean => "euclidean",
            Metric::Manhattan => "manhattan",
            Metric::Cosine => "cosine",
            Metric::DotProduct => "dot",
            Metric::BqEuclidean => "bq-euclidean",
            Metric::BqManhattan => "bq-manhattan",
            Metric::BqCosine => "bq-cosine",
        }
    }
    pub fn from_short(s: &str) -> Option<Metric> {
        ALL_METRICS.iter().copied().find(|m| m.short() == s)
    }
    pub fn is_bq(self) -> bool {
        matches!(self, Metric::BqEuclidean | Metric::BqManhattan | Metric::BqCosine)
    }
    /// Size in bytes of the leaf header in the reference layout.
    pub fn header_size(self) -> usize {
        match self {
            Metric::DotProduct => 8,
            _ => 4,
        }
    }
    /// Size in bytes of a stored vector of `dims` components in the reference layout.
    pub fn vector_bytes(self, dims: usize) -> usize {
        if self.is_bq() {
            dims.div_ceil(64) * 8
        } else {
            dims * 4
        }
    }
    /// Documented default oversampling of the metric (C03).
    pub fn default_oversampling(self) -> usize {
        if self.is_bq() {
            3
        } else {
            1
        }
    }
    /// The metric a C09 "metric change" scenario switches to (see `with_metric_pair!`).
    pub fn pair(self) -> Metric {
        match self {
            Metric::Euclidean => Metric::Manhattan,
            Metric::Manhattan => Metric::Cosine,
            Metric::Cosine => Metric::BqCosine,
            Metric::DotProduct => Metric::Euclidean,
            Metric::BqEuclidean => Metric::BqManhattan,
            Metric::BqManhattan => Metric::Euclidean,
            Metric::BqCosine => Metric::DotProduct,
        }
    }
    pub fn idx(self) -> usize {
        ALL_METRICS.iter().position(|m| *m == self).unwrap()
    }
}

#[macro_export]
macro_rules! with_metric {
    ($m:expr, $D:ident, $body:expr) => {
        match $m {
            $crate::metric::Metric::Euclidean => {
                type $D = arroy::distances::Euclidean;
                $body
            }
            $crate::metric::Metric::Manhattan => {
                type $D = arroy::distances::Manhattan;
                $body
            }
            $crate::metric::Metric::Cosine => {
                type $D = arroy::distances::Cosine;
                $body
            }
            $crate::metric::Metric::DotProduct => {
                type $D = arroy::distances::DotProduct;
                $body
            }
            $crate::metric::Metric::BqEuclidean => {
                type $D = arroy::distances::BinaryQuantizedEuclidean;
                $body
            }
            $crate::metric::Metric::BqManhattan => {
                type $D = arroy::distances::BinaryQuantizedManhattan;
                $body
            }
            $crate::metric::Metric::BqCosine => {
                type $D = arroy::distances::BinaryQuantizedCosine;
                $body
            }
        }
    };
}

/// `$D` = the type of `$m`, `$D2` = the type of `$m.pair()`.
#[macro_export]
macro_rules! with_metric_pair {
    ($m:expr, $D:ident, $D2:ident, $body:expr) => {
        match $m {
            $crate::metric::Metric::Euclidean => {
                type $D = arroy::distances::Euclidean;
                type $D2 = arroy::distances::Manhattan;
                $body
            }
            $crate::metric::Metric::Manhattan => {
                type $D = arroy::distances::Manhattan;
                type $D2 = arroy::distances::Cosine;
                $body
            }
            $crate::metric::Metric::Cosine => {
                type $D = arroy::distances::Cosine;
                type $D2 = arroy::distances::BinaryQuantizedCosine;
                $body
            }
            $crate::metric::Metric::DotProduct => {
                type $D = arroy::distances::DotProduct;
                type $D2 = arroy::distances::Euclidean;
                $body
            }
            $crate::metric::Metric::BqEuclidean => {
                type $D = arroy::distances::BinaryQuantizedEuclidean;
                type $D2 = arroy::distances::BinaryQuantizedManhattan;
                $body
            }
            $crate::metric::Metric::BqManhattan => {
                type $D = arroy::distances::BinaryQuantizedManhattan;
                type $D2 = arroy::distances::Euclidean;
                $body
            }
            $crate::metric::Metric::BqCosine => {
                type $D = arroy::distances::BinaryQuantizedCosine;
                type $D2 = arroy::distances::DotProduct;
                $body
            }
        }
    };
}
