#!/bin/sh
# Builds the harness once (offline) so that quick checks only pay an incremental rebuild:
# the native build (all properties) and the ASan build (quick legs of C11 / C12).
set -e
cd "$(dirname "$0")/harness"
export CARGO_NET_OFFLINE=true
RUSTFLAGS="--cfg arroy_verif" CARGO_TARGET_DIR="$(pwd)/../.build/native" cargo build --release --offline
RUSTFLAGS="--cfg arroy_verif -Zsanitizer=address -Cforce-frame-pointers=yes" CARGO_TARGET_DIR="$(pwd)/../.build/asan" \
  cargo +nightly build --release --offline --target x86_64-unknown-linux-gnu
