#!/bin/sh
# Builds the native harness once (offline) so that quick checks only pay an incremental rebuild.
set -e
cd "$(dirname "$0")/harness"
export CARGO_NET_OFFLINE=true
RUSTFLAGS="--cfg arroy_verif" CARGO_TARGET_DIR="$(pwd)/../.build/native" cargo build --release --offline
