#!/bin/bash
# Confirms a seeded change produced in a scratch worktree and files it under /verif/seeded/<name>/.
# usage: lib/confirm_mutant.sh <name> <worktree> [demo-test-name]
set -u
name=$1; wt=$2; demo=${3:-demo_mutant}
cd "$wt" || exit 2
export CARGO_TARGET_DIR="$wt/target" CARGO_NET_OFFLINE=true
log=$(mktemp)
echo "== confirm $name in $wt" | tee -a $log
git diff -- src/ > /tmp/confirm_$name.diff
if ! diff -q /tmp/confirm_$name.diff MUTANT/patch.diff >/dev/null; then echo "NOTE: worktree diff differs from MUTANT/patch.diff; using MUTANT/patch.diff" | tee -a $log; git checkout -- src/ && git apply MUTANT/patch.diff || exit 2; fi
lib=$(cargo test --offline --lib 2>&1 | grep -E "^test result" | head -1); echo "lib tests with change: $lib" | tee -a $log
doc=$(cargo test --offline --doc 2>&1 | grep -E "^test result" | head -1); echo "doc tests with change: $doc" | tee -a $log
withall=$(cargo test --offline --features assert-reader-validity --test $demo 2>&1); with="$(echo "$withall" | grep -E "panicked at" | head -2 | tr '\n' ' ') $(echo "$withall" | grep -E "^test result" | head -1)"; echo "demo WITH change: $with" | tee -a $log
git apply -R MUTANT/patch.diff || { echo "cannot revert"; exit 2; }
without=$(cargo test --offline --features assert-reader-validity --test $demo 2>&1 | grep -E "^test result" | head -1); echo "demo WITHOUT change: $without" | tee -a $log
git apply MUTANT/patch.diff
ok=1
echo "$lib" | grep -q "57 passed; 0 failed" || ok=0
echo "$doc" | grep -q "12 passed; 0 failed" || ok=0
echo "$with" | grep -q "FAILED\|failed" || ok=0
echo "$with" | grep -q " 0 failed" && ok=0
echo "$without" | grep -q "ok\." || ok=0
echo "$without" | grep -q " 0 failed" || ok=0
if [ $ok = 1 ]; then
  d=/verif/seeded/$name; mkdir -p $d
  cp MUTANT/patch.diff $d/patch.diff; cp tests/$demo.rs $d/demo_mutant.rs 2>/dev/null || cp MUTANT/demo_mutant.rs $d/
  python3 - "$d" "$log" <<'PY'
import json,sys
d,log=sys.argv[1],sys.argv[2]
m=json.load(open('MUTANT/meta.json'))
m['confirmed_by_me']=open(log).read()
json.dump(m,open(d+'/meta.json','w'),indent=1)
PY
  echo "CONFIRMED -> $d"
else
  echo "NOT CONFIRMED"
fi
