class LegResult:
    def __init__(self, name):
        self.name = name
        self.counters = {}
        self.sigs = set()
        self.samples = []
        self.viols = []
        self.inconclusive = []
        self.rule = None
        self.required = []
        self.cases_begun = 0
        self.cases_ended = 0
