#!/usr/bin/env python3
"""Regenerates /verif/MANIFEST.json from lib/plans.py."""
import json, os, sys
ROOT = os.path.dirname(os.path.dirname(os.path.abspath(__file__)))
sys.path.insert(0, os.path.join(ROOT, "lib"))
import plans

hooks_commits = []
hp = os.path.join(ROOT, "lib", "hook_commits.txt")
if os.path.exists(hp):
    hooks_commits = [l.strip() for l in open(hp) if l.strip()]
na = []
nap = os.path.join(ROOT, "lib", "not_applicable.json")
if os.path.exists(nap):
    na = json.load(open(nap))

checks = []
for pid in sorted(plans.PLANS):
    p = plans.PLANS[pid]
    checks.append({
        "property_id": pid,
        "quick_cmd": f"./check {pid} --tier quick",
        "thorough_cmd": f"./check {pid} --tier thorough",
        "evidence_file": f"/verif/evidence/{pid}.json",
        "replay_cmd_template": f"./check {pid} --replay {{path}}",
        "engine": "arroy-verif",
        "level_claimed": {"category": p["level"], "text": p["text"], "design_ref": p["design_ref"]},
        "level_note": p["note"],
        "technique": p["technique"],
    })
m = {
    "version": 1,
    "setup_cmd": "./setup.sh",
    "hooks": {
        "guard": "--cfg arroy_verif",
        "enable": "RUSTFLAGS=\"--cfg arroy_verif\" cargo build (set by ./check for every harness build; /repo is a path dependency so its current working tree is rebuilt)",
        "baseline_off_cmd": "cd /repo && cargo test --workspace --no-fail-fast --offline",
        "source_commits": hooks_commits,
        "add_only": True,
    },
    "engines": [{
        "name": "arroy-verif",
        "path": "/verif/harness",
        "serves_properties": sorted(plans.PLANS),
        "kind_free_text": "Rust harness linking the real arroy+heed+LMDB from /repo's working tree: seeded history explorer, shadow model, independent raw-layout decoder, structural walker, f64 search oracle, fault/crash drivers; sanitizer (ASan/TSan) and Miri legs; Python driver ./check aggregates worker event logs into verdicts and evidence",
    }],
    "checks": checks,
    "notes": "Technique family: runtime monitoring and sanitizers. Verdicts are three-valued (exit 0 held / 1 violation / 2 inconclusive). VERIF_SEED selects the workload; replays/<id>-*.json files re-run one case via ./check <id> --replay <file>.",
    "not_applicable": na,
}
json.dump(m, open(os.path.join(ROOT, "MANIFEST.json"), "w"), indent=1)
print("MANIFEST.json written with", len(checks), "checks")
