#!/bin/sh
# usage: lib/run_seeds.sh <tier> <seed>...   : runs every check at each seed
tier=$1; shift
cd "$(dirname "$0")/.."
for s in "$@"; do echo "=== VERIF_SEED=$s"; VERIF_SEED=$s lib/run_all.sh $tier; done
