#!/bin/bash
# Runs quick checks against a checkout containing a seeded change. usage: lib/try_mutant.sh <worktree> <props...>
wt=$1; shift
cd /verif
for p in "$@"; do
  out=$(VERIF_REPO=$wt ./check $p 2>&1); rc=$?
  nv=$(echo "$out" | grep -c "^VIOLATION")
  echo "$p rc=$rc violations_printed=$nv :: $(echo "$out" | grep "violation \[" | head -1 | cut -c1-300)"
  [ $rc = 2 ] && echo "$out" | tail -3
done
