"""Per-property plans: legs to run, claimed level, assumptions. Also the source of MANIFEST.json
(see gen_manifest.py)."""

COMMON_ASSUMPTIONS = [
    "LMDB (lmdb-master-sys) and heed are trusted: MVCC, copy-on-write commit, cursor semantics",
    "the roaring crate is trusted to (de)serialise bitmaps",
    "held on the executions produced by this run only; reach comes from seeded workload diversity, not enumeration",
]


def explorer(prop, shards=16, watchdog=(900, 7200)):
    return {
        "name": "native",
        "build": "native",
        "argv": ["explore", prop],
        "shards": shards,
        "watchdog_s": {"quick": watchdog[0], "thorough": watchdog[1]},
    }


PLANS = {}


def plan(prop, level, legs, assumptions, title, text, note, technique, design_ref):
    PLANS[prop] = {
        "level": level,
        "legs": legs,
        "assumptions": assumptions + COMMON_ASSUMPTIONS,
        "title": title,
        "text": text,
        "note": note,
        "technique": technique,
        "design_ref": design_ref,
    }


plan("C01", "exploration", [explorer("C01")],
     ["tree-node ids near u32::MAX are unreachable by execution (would need ~4e9 allocations)"],
     "forest covers exactly the live items",
     "Seeded history explorer over the real arroy+LMDB; after every successful build an independent decoder of the raw key/value bytes feeds a structural walker that checks every clause of C01; upstream's assert_validity cross-checks. Exploration is the right level: the quantifier is over unbounded histories and configurations, which only sampling can reach at run time.",
     "independent decoder written from the documented layout; LMDB/heed/roaring trusted",
     "runtime monitoring: structural invariant walker over raw LMDB dumps after every build of generated histories",
     "DESIGN.md §3 C01, §2.1-2.4")

plan("C02", "exploration", [explorer("C02")],
     ["distance accuracy judged within a proven-safe rounding bound (n+8)*2^-23 relative to the sum of absolute terms"],
     "exact search with unlimited budget",
     "Explorer histories; on every built state queries with search_k=usize::MAX are compared with an f64 brute-force oracle over the shadow model (never over what arroy stored) with a tie-immune top-k comparison.",
     "oracle rounding bounds; LMDB trusted",
     "runtime monitoring: differential oracle (f64 brute force over shadow model) on exhaustive queries",
     "DESIGN.md §3 C02, §2.5")

plan("C03", "exploration", [explorer("C03")],
     ["budget monotonicity judged in arroy's own reported distances"],
     "any-budget filtered search",
     "Explorer histories; a lattice of (count, search_k ladder, oversampling, candidates) queries per built state checked for well-formedness, by_item==by_vector, budget monotonicity, exactness at unlimited budget under a filter, default budget formula, None on unknown ids, no panic.",
     "oracle rounding bounds; LMDB trusted",
     "runtime monitoring: query-lattice monitor with metamorphic relations and f64 oracle",
     "DESIGN.md §3 C03")

plan("C04", "exploration", [explorer("C04")],
     ["margins are recomputed with arroy's own public margin function on the stored bytes (so the check is about placement, not about the kernel, which C11 covers)"],
     "self routing",
     "Explorer histories with many incremental rounds; structural monitor (each item lies on the side its own margin selects, for every non-degenerate plane above it) + behavioural monitor (by_item with search_k=1 finds the item when a clean tree exists).",
     "arroy's margin kernel trusted here (checked by C11)",
     "runtime monitoring: structural margin/side invariant on raw dumps + minimal-budget self-lookup probes",
     "DESIGN.md §3 C04")

plan("C05", "exploration", [explorer("C05")],
     [],
     "item store equals last write",
     "Explorer histories with all-bit-pattern floats; after every operation in the write txn and after every commit/abort in a fresh read txn the whole public read API is compared bit-for-bit with a shadow map.",
     "LMDB trusted",
     "runtime monitoring: shadow-model comparison after every operation",
     "DESIGN.md §3 C05")

plan("C06", "exploration", [explorer("C06")],
     [],
     "stale index never served",
     "Short explorer histories; Reader::open (right/wrong metric) and need_build after every single operation, in-txn and from fresh read txns after commit/abort, against the model's built/dirty flags.",
     "LMDB trusted",
     "runtime monitoring: reference-model monitor of open/need_build outcomes after every operation",
     "DESIGN.md §3 C06")

plan("C07", "exploration", [explorer("C07")],
     ["tree-node ids near u32::MAX unreachable by execution"],
     "index isolation",
     "Explorer histories over 2-4 indexes sharing one database; raw dumps restricted to the other indexes' key ranges compared byte for byte around every operation (including builds, clears and metric changes).",
     "LMDB trusted",
     "runtime monitoring: before/after raw-dump comparison of foreign key ranges around every operation",
     "DESIGN.md §3 C07")

plan("C14", "exploration", [explorer("C14", watchdog=(1200, 10800))],
     ["non-termination is decided by a logical clock (cancellation polls) with a bound >=50x the largest count observed on correct runs; the wall-clock watchdog only yields inconclusive"],
     "memory hint changes how, never what",
     "Explorer histories crossing available_memory values with item counts around the 200-item minimum batch; every build is bounded by a logical poll clock and followed by the C01 walker and exact queries.",
     "poll-count bound calibrated on the unchanged tree",
     "runtime monitoring: logical-clock termination monitor + structural walker + exact-search oracle under memory hints",
     "DESIGN.md §3 C14, §2.6")

plan("C15", "exploration", [explorer("C15")],
     [],
     "tree count and bucket capacity honoured",
     "Explorer histories whose options are re-drawn between rounds; reader-visible tree count, decoded bucket sizes and searchability compared with the request after every build.",
     "LMDB trusted",
     "runtime monitoring: option-conformance monitor on decoded forests after every build",
     "DESIGN.md §3 C15")

plan("C18", "exploration", [explorer("C18")],
     ["BQ->f32 keeps only the +-1 pattern (nothing else was ever stored)"],
     "metric change keeps items, forces rebuild",
     "Explorer histories with prepare_changing_distance between all ordered metric pairs; raw leaves, API read-back, need_build, neighbours' bytes, then after rebuild the C01 walker and exact by_vector/by_item queries; old metric must be refused.",
     "LMDB trusted",
     "runtime monitoring: raw-leaf + API monitors around metric changes, walker and search oracle after rebuild",
     "DESIGN.md §3 C18")

plan("C19", "exploration", [explorer("C19")],
     [],
     "rejected calls have no effect",
     "Explorer histories with wrong-length add/append/search, out-of-order appends over several indexes and deletes of absent ids; exact error values, raw dump identical before/after, valid append byte-identical to add_item.",
     "LMDB trusted",
     "runtime monitoring: before/after raw-dump comparison around rejected calls + error-value oracle",
     "DESIGN.md §3 C19")

plan("C20", "exploration", [explorer("C20", watchdog=(1200, 10800))],
     ["termination decided by the logical poll clock; stack overflows / aborts observed as worker crashes attributed to the running case"],
     "degenerate data never breaks build or search",
     "Explorer histories over 9 degenerate data families x 7 metrics; builds bounded by the logical clock, then walker, store check and a query lattice without the accuracy clause; any panic/abort/error is a violation.",
     "LMDB trusted",
     "runtime monitoring: crash/panic/termination monitors + structural walker on degenerate datasets",
     "DESIGN.md §3 C20")

RUNNERS = {}


def worker(name, argv, build="native", shards=16, watchdog=(900, 7200), tiers=("quick", "thorough"), env=None, sanitizer=None, wrapper=None):
    leg = {"name": name, "build": build, "argv": argv, "shards": shards,
           "watchdog_s": {"quick": watchdog[0], "thorough": watchdog[1]}, "tiers": tiers}
    if env:
        leg["env"] = env
    if sanitizer:
        leg["sanitizer"] = sanitizer
    if wrapper:
        leg["wrapper"] = wrapper
    return leg


ASAN_ENV = {"ASAN_OPTIONS": "detect_leaks=0:abort_on_error=0:halt_on_error=1:exitcode=77:symbolize=1", "ASAN_SYMBOLIZER_PATH": "/usr/bin/llvm-symbolizer-14"}
TSAN_ENV = {"TSAN_OPTIONS": "halt_on_error=1:exitcode=66:second_deadlock_stack=1"}

plan("C11", "exploration",
     [worker("native", ["kernels", "C11"]),
      explorer("C11") | {"name": "end-to-end"},
      worker("asan", ["kernels", "C11", "--reps", "2"], build="asan", env=ASAN_ENV, sanitizer="asan"),
      worker("miri", ["kernels", "C11", "--reps", "1", "--max-len", "70", "--offsets", "4", "--classes", "34"], build="miri", tiers=("thorough",), sanitizer="miri", watchdog=(3600, 3600))],
     ["value ranges are chosen so that no f32 intermediate overflows (|x| <= 1e17) and underflow is covered by an absolute term; NaN/inf inputs are C20's",
      "NEON code paths cannot run on this x86-64 host",
      "a clean sanitizer run is not memory safety: red zones miss non-adjacent over-reads"],
     "distances equal the metric's definition",
     "All lengths 1..=300 x all 16 byte offsets x 10 value classes x 4 metrics through the public Distance functions on Leafs borrowed from exact-size heap buffers, every kernel (plain/SSE/AVX) directly through the hook, dispatch rule, symmetry, self-distance, range; an end-to-end explorer leg compares the distances reported by searches on indexes written through add/append/overwrite with the definition; thorough adds an ASan leg (over-read = report) and a Miri leg on the pure-Rust kernels.",
     "f64 oracle with proven rounding bounds; host CPU features decide which kernels run",
     "runtime monitoring: differential f64 oracle over kernel/Distance outputs + ASan/Miri on the SIMD kernels",
     "DESIGN.md §3 C11, §4")

plan("C12", "exploration",
     [worker("native", ["bq", "C12"]),
      worker("asan", ["bq", "C12", "--random", "40", "--exhaustive", "9"], build="asan", env=ASAN_ENV, sanitizer="asan"),
      worker("miri", ["bq", "C12", "--random", "3", "--exhaustive", "4", "--max-dim", "130", "--e2e", "0"], build="miri", tiers=("thorough",), sanitizer="miri", watchdog=(3600, 3600))],
     ["NEON conversion paths cannot run on this x86-64 host",
      "BQ-Cosine goes through fl(sqrt(L))^2: equal patterns give |d| <= 4*2^-23 rather than exactly 0; Euclidean/Manhattan are required to be exactly 0"],
     "binary quantisation keeps the sign pattern",
     "Every dimension 1..=300; all 2^d sign patterns for d<=12 (14 thorough), hundreds of random ones beyond, hostile component representatives (+-0, NaNs, inf, subnormals); every conversion path incl. plain/SIMD through the hook; three quantised distances along chains of increasing Hamming distance; end-to-end through Writer/Reader. Thorough adds ASan and Miri legs on the codec.",
     "exact integer oracle (Hamming counts)",
     "runtime monitoring: exact sign-pattern oracle on codec paths and quantised distances + ASan/Miri on the codec",
     "DESIGN.md §3 C12, §4")

MIRI_SEEDS_ENV = {"MIRIFLAGS": "-Zmiri-disable-isolation -Zmiri-deterministic-floats -Zmiri-many-seeds=0..16 -Zmiri-preemption-rate=0.2"}

plan("C13", "exploration",
     [explorer("C13"),
      worker("stress", ["ids", "C13"]),
      worker("tsan", ["explore", "C13", "--cases", "160"], build="tsan", tiers=("thorough",), env=TSAN_ENV, sanitizer="tsan", watchdog=(3600, 3600)),
      worker("tsan-stress", ["ids", "C13", "--cases", "400"], build="tsan", tiers=("thorough",), env=TSAN_ENV, sanitizer="tsan", watchdog=(3600, 3600)),
      worker("miri", ["ids", "C13", "--small", "1"], build="miri", shards=16, tiers=("thorough",), env=MIRI_SEEDS_ENV, sanitizer="miri", watchdog=(3600, 3600))],
     ["interleavings are sampled (native stress with seeded noise, Miri's scheduler over 16 seeds with preemption), not enumerated",
      "ThreadSanitizer only sees synchronisation it intercepts; LMDB's C code is not instrumented"],
     "parallel tree updates never collide",
     "In situ: id log of real multi-threaded builds (unique, disjoint from ids in use) + C01 walker, with seeded noise at hook points. Direct: stress of the exported id generator from 2-16 threads. Thorough: TSan on both, Miri many-seeds on the generator over every used subset of {0..4}.",
     "hook exports ConcurrentNodeIds and logs ids; scheduling noise is add-only",
     "runtime monitoring: offline exactly-once/disjointness check over the hooked id log, thread stress, TSan and Miri schedulers",
     "DESIGN.md §3 C13, §4, §5")

plan("C10", "fault_enumeration",
     [worker("native", ["faults", "C10"], watchdog=(1200, 7200))],
     ["cancellation callbacks are monotone (once true, always true)",
      "temp-file write failures are injected with RLIMIT_FSIZE (EFBIG), not with a full disk"],
     "failed / cancelled builds report it and roll back",
     "Fault enumeration over the real build: cancellation from the n-th poll for every n of a complete build (all n thorough), on states with pending insertions/deletions and forests that must grow or shrink, pools of 1 and 4 threads; LMDB map sizes from 64 KiB to 8 MiB; unusable temp dirs and failing temp-file writes; fd and temp-dir leak probes across hundreds of faulted builds per process. Oracle: right error (or Ok with a valid forest), never a panic, raw dump after abort == before, clean retry valid.",
     "LMDB abort semantics trusted; faults injected at the callback / resource boundary",
     "runtime monitoring under enumerated injected faults (cancel point, map size, temp dir, write limit) with dump-equality and leak probes",
     "DESIGN.md §3 C10")


# ------------------------------------------------------------------------------------------------
# C09: crash-point enumeration, orchestrated from Python (child process + verifier process)

def _crash_runner(leg, prop, tier, seed, jobs, ROOT, BUILD, replay_case):
    import json, os, random, re, shutil, signal, subprocess, tempfile, time
    from concurrent.futures import ThreadPoolExecutor
    from legres import LegResult
    res = LegResult(leg["name"])
    binp = os.path.join(BUILD, "native", "release", "arroy-verif")
    scratch = os.environ.get("VERIF_CRASH_SCRATCH", tempfile.gettempdir())
    versions = 6
    thorough = tier == "thorough"
    rng = random.Random(seed * 7919 + 13)
    STRACE_SET = "lseek,writev,pwritev,pwrite64,fdatasync,fsync"

    def run_child(cs, kill, mode="plain", strace_k=None, timer_v=None, timer_delay=0.0, use_tmpdir=False, change=0):
        d = tempfile.mkdtemp(prefix="arroy-verif-crash-", dir=scratch)
        cmd = [binp, "crash-child", "C09", "--dir", d, "--seed", str(cs), "--versions", str(versions), "--kill", kill, "--change", str(change)]
        if use_tmpdir:
            os.makedirs(d + ".tmp", exist_ok=True)
            cmd += ["--tmpdir", d + ".tmp"]
        if mode == "strace":
            sc, k = strace_k
            cmd = ["strace", "-f", "-qq", "-o", "/dev/null", "-e", "trace=" + STRACE_SET,
                   "-e", f"inject={sc}:signal=KILL:when={k}", "--"] + cmd
        out_lines = []
        p = subprocess.Popen(cmd, stdout=subprocess.PIPE, stderr=subprocess.PIPE, text=True, bufsize=1)
        killed_by_timer = False
        try:
            if mode == "timer":
                for ln in p.stdout:
                    out_lines.append(ln.rstrip("\n"))
                    if ln.startswith(f"COMMITTING {timer_v}"):
                        time.sleep(timer_delay)
                        try:
                            p.send_signal(signal.SIGKILL)
                            killed_by_timer = True
                        except ProcessLookupError:
                            pass
                        break
                # keep reading through the same buffered wrapper (communicate() would bypass its buffer)
                rest = p.stdout.read()
                err = p.stderr.read()
                p.wait(timeout=120)
                out_lines += [l for l in rest.splitlines()]
            else:
                out, err = p.communicate(timeout=120)
                out_lines = out.splitlines()
        except subprocess.TimeoutExpired:
            p.kill()
            p.communicate()
            return d, out_lines, None, "timeout"
        return d, out_lines, p.returncode, err

    def analyse(out_lines):
        acked, inflight, counts, done = -1, None, {}, False
        for ln in out_lines:
            m = re.match(r"ACK (\d+)", ln)
            if m:
                acked = int(m.group(1)); inflight = None
            m = re.match(r"COMMITTING (\d+)", ln)
            if m:
                inflight = int(m.group(1))
            m = re.match(r"COUNT (\d+) polls=(\d+) steps=(\d+) ops=(\d+)", ln)
            if m:
                counts[int(m.group(1))] = tuple(int(x) for x in m.groups()[1:])
            if ln == "DONE":
                done = True
        return acked, inflight, counts, done

    def verify(cs, d, acked, inflight, change=0):
        cmd = [binp, "crash-verify", "C09", "--dir", d, "--seed", str(cs), "--acked", str(acked) if acked >= 0 else "none", "--change", str(change)]
        if os.path.isdir(d + ".tmp"):
            cmd += ["--tmpdir", d + ".tmp"]
        if inflight is not None:
            cmd += ["--inflight", str(inflight)]
        try:
            r = subprocess.run(cmd, stdout=subprocess.PIPE, stderr=subprocess.PIPE, text=True, timeout=120)
        except subprocess.TimeoutExpired:
            return "inconclusive", "verifier timed out"
        for ln in r.stdout.splitlines():
            if ln.startswith("VERIFY ok"):
                return "ok", ln
            if ln.startswith("VERIFY violation"):
                return "violation", ln[len("VERIFY violation "):]
        return "inconclusive", f"verifier produced no verdict (exit {r.returncode}): {r.stderr[-400:]}"

    # scenarios and their counting runs
    # every second scenario changes the metric at version 4 (prepare_changing_distance committed without a build)
    n_scen = 2 if not thorough else 4
    scen = []
    for i in range(n_scen):
        cs = (seed * 1000003 + i * 7919 + 0xC09) & 0xFFFFFFFF
        change = i % 2
        d, out, rc, err = run_child(cs, "none", change=change)
        acked, inflight, counts, done = analyse(out)
        shutil.rmtree(d, ignore_errors=True)
        if not done or rc != 0:
            res.inconclusive.append(f"counting run of scenario {cs} did not complete (rc={rc}): {str(err)[-300:]}")
            return res
        scen.append((cs, counts, change))
    # strace availability + number of matching syscalls
    strace_ok = shutil.which("strace") is not None
    specs = []   # (cs, label, kwargs)
    for cs, counts, change in scen:
        n0 = len(specs)
        if change:
            specs.append((cs, "prepare:4:0", dict(kill="prepare:4:0")))
        for v in range(1, versions + 1):
            polls, steps, ops = counts[v]
            if polls == 0:
                ks = []   # a staging version: appended items are committed without a build
            elif thorough and v in (1, 3):
                ks = list(range(polls))
            else:
                n = 35 if not thorough else 200
                ks = sorted(set([0, 1, polls - 1] + [rng.randrange(polls) for _ in range(n)]))
            for k in ks:
                specs.append((cs, f"poll:{v}:{k}", dict(kill=f"poll:{v}:{k}")))
            for k in range(steps):
                specs.append((cs, f"step:{v}:{k}", dict(kill=f"step:{v}:{k}")))
            oks = range(ops) if thorough else sorted(set([0, ops - 1] + [rng.randrange(ops) for _ in range(5)]))
            for k in oks:
                specs.append((cs, f"op:{v}:{k}", dict(kill=f"op:{v}:{k}")))
            specs.append((cs, f"after:{v}:0", dict(kill=f"after:{v}:0")))
            nt = 12 if not thorough else 125
            for j in range(nt):
                specs.append((cs, f"timer:{v}:{j}", dict(kill="none", mode="timer", timer_v=v, timer_delay=rng.random() * 0.004)))
        if strace_ok:
            # strace keeps one invocation counter per syscall: enumerate (syscall, K)
            for sc in STRACE_SET.split(","):
                for k in range(1, 15 if thorough else 10):
                    specs.append((cs, f"strace:{sc}:{k}", dict(kill="none", mode="strace", strace_k=(sc, k))))
        for i in range(n0, len(specs)):
            specs[i] = (specs[i][0], specs[i][1] + ("+change" if change else ""), dict(specs[i][2], change=change))
    # every second kill point runs with a configured temp directory (Writer::set_tmpdir) that survives the crash
    specs = [(cs, label + ("+tmpdir" if i % 2 else ""), dict(kw, use_tmpdir=bool(i % 2))) for i, (cs, label, kw) in enumerate(specs)]
    if replay_case is not None:
        specs = [s for s in specs if f"{s[0]}/{s[1]}" == replay_case]

    def one(spec):
        cs, label, kw = spec
        d, out, rc, err = run_child(cs, **kw)
        try:
            acked, inflight, counts, done = analyse(out)
            if rc is None:
                return spec, "inconclusive", "child timed out", None
            if kw.get("mode") == "strace" and rc not in (0, -9, 137) and not done:
                return spec, "strace-failed", f"rc={rc} {str(err)[-200:]}", None
            if done:
                inflight = None
            verdict, msg = verify(cs, d, acked, inflight, kw.get("change", 0))
            return spec, verdict, msg, (acked, inflight, done, rc)
        finally:
            shutil.rmtree(d, ignore_errors=True)
            shutil.rmtree(d + ".tmp", ignore_errors=True)

    t0 = time.time()
    with ThreadPoolExecutor(max_workers=max(2, jobs)) as ex:
        results = list(ex.map(one, specs))
    c = res.counters
    strace_failed = 0
    for (cs, label, kw), verdict, msg, info in results:
        res.cases_begun += 1
        res.cases_ended += 1
        mode = label.split(":")[0].split("+")[0]
        c["cases"] = c.get("cases", 0) + 1
        c[f"kills_{mode}"] = c.get(f"kills_{mode}", 0) + 1
        if kw.get("use_tmpdir"):
            c["kills_with_configured_tmpdir"] = c.get("kills_with_configured_tmpdir", 0) + 1
        if kw.get("change"):
            c["kills_in_metric_change_scenarios"] = c.get("kills_in_metric_change_scenarios", 0) + 1
        if verdict == "strace-failed":
            strace_failed += 1
            continue
        if verdict == "inconclusive":
            res.inconclusive.append(f"{cs}/{label}: {msg}")
            continue
        acked, inflight, done, rc = info
        if done:
            c["kill_point_not_reached"] = c.get("kill_point_not_reached", 0) + 1
        else:
            c["child_killed"] = c.get("child_killed", 0) + 1
            c[f"killed_by_{mode}"] = c.get(f"killed_by_{mode}", 0) + 1
        if inflight is not None:
            c["killed_with_commit_in_flight"] = c.get("killed_with_commit_in_flight", 0) + 1
        if verdict == "ok":
            c["verified_ok"] = c.get("verified_ok", 0) + 1
            m = re.search(r"v=(\d+) .*which=(\w+)", msg)
            if m:
                c[f"visible_{m.group(2)}"] = c.get(f"visible_{m.group(2)}", 0) + 1
                res.sigs.add(f"{mode}|v{m.group(1)}|{m.group(2)}|{'done' if done else 'killed'}|{kw.get('change', 0)}")
            if len(res.samples) < 3 and not done:
                res.samples.append({"scenario_seed": cs, "kill": label, "last_ack": acked, "commit_in_flight": inflight, "verifier": msg})
        else:
            res.viols.append({"property": prop, "case_seed": f"{cs}/{label}", "key": f"crash:{mode}", "step": -1,
                              "msg": f"kill point {label} (last ACK {acked}, commit in flight {inflight}): {msg}"})
    if strace_failed:
        c["strace_unavailable_runs"] = strace_failed
    res.rule = ("fault enumeration over crash points: a child process runs a deterministic history of 7 committed versions (two of them staging versions: items appended and committed without a build; in every second scenario version 4 is prepare_changing_distance to another metric committed without a build, and the later versions work under the new metric; 1 rayon thread) and is SIGKILLed "
                "(a) at the k-th cancellation poll of a build (every k for two builds in the thorough tier, sampled otherwise), (b) at every progress step, "
                "(c) before the k-th item operation, (d) right after a commit returned, (e) at a random instant between COMMITTING and ACK, "
                "(f) by strace at the K-th invocation of each commit syscall (lseek, writev, pwritev, pwrite64, fdatasync, fsync; K=1..9, 14 thorough); a fresh process then reopens the directory and compares what is visible "
                "with the model of the last acknowledged (or in-flight) version recomputed from the seed: sentinel, item store, C01 walker, exact queries, and one more update+build+commit; "
                "non-trivial+distinct = distinct (kill mode, visible version, acked/in-flight, killed/completed) outcomes")
    res.required = ["child_killed", "verified_ok", "kills_in_metric_change_scenarios", "killed_by_poll", "killed_by_step", "killed_by_op", "killed_by_timer", "killed_with_commit_in_flight"]
    c["wall_s_x100"] = int((time.time() - t0) * 100)
    return res


RUNNERS["crash"] = _crash_runner

plan("C09", "fault_enumeration",
     [{"name": "native", "build": "native", "runner": "crash", "argv": [], "watchdog_s": {"quick": 1800, "thorough": 7200}}],
     ["process death only (SIGKILL): the page cache survives, so torn pages / power loss are out of reach",
      "LMDB's copy-on-write commit is trusted; the check is that arroy adds no side channel and no partial state"],
     "crash leaves the last committed index",
     "Crash-point enumeration: child process killed at enumerated cancellation polls, progress steps, item operations, inside the commit's syscalls (strace injection) and at random instants of a commit; a fresh verifier process reopens the directory and compares with the model of the acknowledged / in-flight version, then continues the history.",
     "SIGKILL-level crashes; LMDB durability trusted",
     "runtime monitoring under enumerated crash points (self-kill at callback counts, strace syscall injection, timer kills) with a reopen-and-compare verifier",
     "DESIGN.md §3 C09")

plan("C08", "exploration",
     [worker("native", ["snap", "C08"], watchdog=(1200, 7200)),
      worker("tsan", ["snap", "C08", "--cases", "16", "--versions", "25"], build="tsan", tiers=("thorough",), env=TSAN_ENV, sanitizer="tsan", watchdog=(3600, 3600))],
     ["thread interleavings are sampled under oversubscription, random naps and hook noise, not enumerated",
      "LMDB MVCC itself is trusted (C code not instrumented by TSan)"],
     "writers atomic, readers keep a consistent snapshot",
     "One writer thread (updates, sentinel, build in a rayon pool, commit or abort after successful/cancelled builds) against 2-6 reader threads that open, fully check and hold snapshots at random moments; version bounds c0 <= v <= c1 from atomics read around the open; whole-snapshot comparison with the model of v; aborted transactions must leave the raw dump unchanged. Thorough adds a TSan leg.",
     "LMDB MVCC trusted",
     "runtime monitoring: concurrent history recorder with version sentinel, whole-snapshot oracle and abort dump-equality; TSan",
     "DESIGN.md §3 C08")

plan("C16", "exploration",
     [worker("native", ["fixtures", "C16"], shards=8), explorer("C16") | {"name": "decode"}],
     ["the golden fixtures were generated once by the reference tree (pinned commit + the fix commits) on a little-endian x86-64 host and verified by the oracles before being committed; they are never regenerated by the check",
      "the reference decoder is written from the documented layout only (no arroy codec)"],
     "on-disk format stays readable",
     "Forward: 7 committed golden fixtures loaded through raw puts must open, read back, pass C01, replay recorded queries (neighbours + distances) and accept an incremental update. Backward: key lattice over index x id boundaries through the public API vs the reference encoding and LMDB order; explorer leg in which every dump must parse under the reference decoder.",
     "fixed committed reference (fixtures + decoder)",
     "runtime monitoring against a fixed committed reference: golden-fixture replay + reference decoder over generated databases",
     "DESIGN.md §3 C16, Appendix A")

plan("C17", "exploration",
     [worker("native", ["upgrade", "C17"])],
     ["the v0.4 layout is produced by the harness's own inverse of the documented layout change (key kinds, child kinds, metric name 'angular', pending-updates bitmap)"],
     "upgrade preserves content",
     "Cosine databases from explorer histories are inverted into the v0.4 layout, loaded raw, upgraded into a second environment and in place; the result must equal the current-layout original byte for byte (minus version records), open or demand a build iff updates were pending, pass the walkers and exact queries; then 0.5->0.6 must add exactly one version record per index with metadata.",
     "harness-side layout inversion; LMDB trusted",
     "runtime monitoring: round-trip differential (invert layout, run the real upgrade, byte-compare dumps) over generated databases",
     "DESIGN.md §3 C17")


# ------------------------------------------------------------------------------------------------
# extra thorough-tier legs on top of the explorer plans

def _extra(prop, legs, assumptions=()):
    PLANS[prop]["legs"].extend(legs)
    PLANS[prop]["assumptions"] = list(assumptions) + PLANS[prop]["assumptions"]


_extra("C02", [worker("asan", ["explore", "C02", "--cases", "1600"], build="asan", tiers=("thorough",), env=ASAN_ENV, sanitizer="asan", watchdog=(3600, 3600))],
       ["ASan leg: a heap over-read on the query path is a violation (query vectors are exact-size allocations); LMDB's C code is not instrumented"])
_extra("C03", [worker("asan", ["explore", "C03", "--cases", "1000"], build="asan", tiers=("thorough",), env=ASAN_ENV, sanitizer="asan", watchdog=(3600, 3600)),
               worker("plain", ["explore", "C03", "--cases", "6000"], build="plain", tiers=("thorough",), watchdog=(3600, 3600))],
       ["plain leg = release profile without debug assertions / overflow checks (what a downstream user ships)"])
_extra("C18", [worker("asan", ["explore", "C18", "--cases", "1200"], build="asan", tiers=("thorough",), env=ASAN_ENV, sanitizer="asan", watchdog=(3600, 3600))],
       ["ASan leg covers the post-change queries (a stored vector longer than the query makes the AVX kernel over-read)"])
_extra("C11", [worker("plain", ["kernels", "C11", "--reps", "60"], build="plain", tiers=("thorough",), watchdog=(3600, 3600))])
_extra("C12", [worker("plain", ["bq", "C12", "--random", "2000"], build="plain", tiers=("thorough",), watchdog=(3600, 3600))])
_extra("C20", [worker("plain", ["explore", "C20", "--cases", "2600"], build="plain", tiers=("thorough",), watchdog=(3600, 3600))])

# monitor self-tests (every tier): the walker, the top-k oracle and the reference decoder must reject a
# state corrupted in exactly the way each of their clauses forbids; a miss makes the run inconclusive
for _p in ("C01", "C02", "C16"):
    _extra(_p, [worker("selftest", ["selftest", _p], shards=1, watchdog=(300, 300))],
           ["monitor self-test leg: 36 single-clause corruptions of a valid index / answer / dump must each be rejected"])


# C18: every Writer of every case gets a configured temp dir while the process default (TMPDIR) is unusable:
# a build that does not honour Writer::set_tmpdir (e.g. through the writer handed back by
# prepare_changing_distance) fails with an io error instead of silently using another directory
PLANS["C18"]["legs"][0]["env"] = {"TMPDIR": "/nonexistent-arroy-verif-tmpdir", "VERIF_FORCE_TMPDIR": "1"}
PLANS["C18"]["assumptions"].insert(0, "native leg runs with TMPDIR pointing to a directory that does not exist and a configured temp dir on every Writer, so that a lost set_tmpdir becomes an io error")
