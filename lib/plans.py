"""Per-property plans: legs to run, claimed level, assumptions. Also the source of MANIFEST.json
(see gen_manifest.py)."""

COMMON_ASSUMPTIONS = [
    "LMDB (lmdb-master-sys) and heed are trusted: MVCC, copy-on-write commit, cursor semantics",
    "the roaring crate is trusted to (de)serialise bitmaps",
    "held on the executions produced by this run only; reach comes from seeded workload diversity, not enumeration",
]


def explorer(prop, shards=16, watchdog=(900, 7200)):
    return {
        "name": "native",
        "build": "native",
        "argv": ["explore", prop],
        "shards": shards,
        "watchdog_s": {"quick": watchdog[0], "thorough": watchdog[1]},
    }


PLANS = {}


def plan(prop, level, legs, assumptions, title, text, note, technique, design_ref):
    PLANS[prop] = {
        "level": level,
        "legs": legs,
        "assumptions": assumptions + COMMON_ASSUMPTIONS,
        "title": title,
        "text": text,
        "note": note,
        "technique": technique,
        "design_ref": design_ref,
    }


plan("C01", "exploration", [explorer("C01")],
     ["tree-node ids near u32::MAX are unreachable by execution (would need ~4e9 allocations)"],
     "forest covers exactly the live items",
     "Seeded history explorer over the real arroy+LMDB; after every successful build an independent decoder of the raw key/value bytes feeds a structural walker that checks every clause of C01; upstream's assert_validity cross-checks. Exploration is the right level: the quantifier is over unbounded histories and configurations, which only sampling can reach at run time.",
     "independent decoder written from the documented layout; LMDB/heed/roaring trusted",
     "runtime monitoring: structural invariant walker over raw LMDB dumps after every build of generated histories",
     "DESIGN.md §3 C01, §2.1-2.4")

plan("C02", "exploration", [explorer("C02")],
     ["distance accuracy judged within a proven-safe rounding bound (n+8)*2^-23 relative to the sum of absolute terms"],
     "exact search with unlimited budget",
     "Explorer histories; on every built state queries with search_k=usize::MAX are compared with an f64 brute-force oracle over the shadow model (never over what arroy stored) with a tie-immune top-k comparison.",
     "oracle rounding bounds; LMDB trusted",
     "runtime monitoring: differential oracle (f64 brute force over shadow model) on exhaustive queries",
     "DESIGN.md §3 C02, §2.5")

plan("C03", "exploration", [explorer("C03")],
     ["budget monotonicity judged in arroy's own reported distances"],
     "any-budget filtered search",
     "Explorer histories; a lattice of (count, search_k ladder, oversampling, candidates) queries per built state checked for well-formedness, by_item==by_vector, budget monotonicity, exactness at unlimited budget under a filter, default budget formula, None on unknown ids, no panic.",
     "oracle rounding bounds; LMDB trusted",
     "runtime monitoring: query-lattice monitor with metamorphic relations and f64 oracle",
     "DESIGN.md §3 C03")

plan("C04", "exploration", [explorer("C04")],
     ["margins are recomputed with arroy's own public margin function on the stored bytes (so the check is about placement, not about the kernel, which C11 covers)"],
     "self routing",
     "Explorer histories with many incremental rounds; structural monitor (each item lies on the side its own margin selects, for every non-degenerate plane above it) + behavioural monitor (by_item with search_k=1 finds the item when a clean tree exists).",
     "arroy's margin kernel trusted here (checked by C11)",
     "runtime monitoring: structural margin/side invariant on raw dumps + minimal-budget self-lookup probes",
     "DESIGN.md §3 C04")

plan("C05", "exploration", [explorer("C05")],
     [],
     "item store equals last write",
     "Explorer histories with all-bit-pattern floats; after every operation in the write txn and after every commit/abort in a fresh read txn the whole public read API is compared bit-for-bit with a shadow map.",
     "LMDB trusted",
     "runtime monitoring: shadow-model comparison after every operation",
     "DESIGN.md §3 C05")

plan("C06", "exploration", [explorer("C06")],
     [],
     "stale index never served",
     "Short explorer histories; Reader::open (right/wrong metric) and need_build after every single operation, in-txn and from fresh read txns after commit/abort, against the model's built/dirty flags.",
     "LMDB trusted",
     "runtime monitoring: reference-model monitor of open/need_build outcomes after every operation",
     "DESIGN.md §3 C06")

plan("C07", "exploration", [explorer("C07")],
     ["tree-node ids near u32::MAX unreachable by execution"],
     "index isolation",
     "Explorer histories over 2-4 indexes sharing one database; raw dumps restricted to the other indexes' key ranges compared byte for byte around every operation (including builds, clears and metric changes).",
     "LMDB trusted",
     "runtime monitoring: before/after raw-dump comparison of foreign key ranges around every operation",
     "DESIGN.md §3 C07")

plan("C14", "exploration", [explorer("C14", watchdog=(1200, 10800))],
     ["non-termination is decided by a logical clock (cancellation polls) with a bound >=50x the largest count observed on correct runs; the wall-clock watchdog only yields inconclusive"],
     "memory hint changes how, never what",
     "Explorer histories crossing available_memory values with item counts around the 200-item minimum batch; every build is bounded by a logical poll clock and followed by the C01 walker and exact queries.",
     "poll-count bound calibrated on the unchanged tree",
     "runtime monitoring: logical-clock termination monitor + structural walker + exact-search oracle under memory hints",
     "DESIGN.md §3 C14, §2.6")

plan("C15", "exploration", [explorer("C15")],
     [],
     "tree count and bucket capacity honoured",
     "Explorer histories whose options are re-drawn between rounds; reader-visible tree count, decoded bucket sizes and searchability compared with the request after every build.",
     "LMDB trusted",
     "runtime monitoring: option-conformance monitor on decoded forests after every build",
     "DESIGN.md §3 C15")

plan("C18", "exploration", [explorer("C18")],
     ["BQ->f32 keeps only the +-1 pattern (nothing else was ever stored)"],
     "metric change keeps items, forces rebuild",
     "Explorer histories with prepare_changing_distance between all ordered metric pairs; raw leaves, API read-back, need_build, neighbours' bytes, then after rebuild the C01 walker and exact by_vector/by_item queries; old metric must be refused.",
     "LMDB trusted",
     "runtime monitoring: raw-leaf + API monitors around metric changes, walker and search oracle after rebuild",
     "DESIGN.md §3 C18")

plan("C19", "exploration", [explorer("C19")],
     [],
     "rejected calls have no effect",
     "Explorer histories with wrong-length add/append/search, out-of-order appends over several indexes and deletes of absent ids; exact error values, raw dump identical before/after, valid append byte-identical to add_item.",
     "LMDB trusted",
     "runtime monitoring: before/after raw-dump comparison around rejected calls + error-value oracle",
     "DESIGN.md §3 C19")

plan("C20", "exploration", [explorer("C20", watchdog=(1200, 10800))],
     ["termination decided by the logical poll clock; stack overflows / aborts observed as worker crashes attributed to the running case"],
     "degenerate data never breaks build or search",
     "Explorer histories over 9 degenerate data families x 7 metrics; builds bounded by the logical clock, then walker, store check and a query lattice without the accuracy clause; any panic/abort/error is a violation.",
     "LMDB trusted",
     "runtime monitoring: crash/panic/termination monitors + structural walker on degenerate datasets",
     "DESIGN.md §3 C20")

RUNNERS = {}


def worker(name, argv, build="native", shards=16, watchdog=(900, 7200), tiers=("quick", "thorough"), env=None, sanitizer=None, wrapper=None):
    leg = {"name": name, "build": build, "argv": argv, "shards": shards,
           "watchdog_s": {"quick": watchdog[0], "thorough": watchdog[1]}, "tiers": tiers}
    if env:
        leg["env"] = env
    if sanitizer:
        leg["sanitizer"] = sanitizer
    if wrapper:
        leg["wrapper"] = wrapper
    return leg


ASAN_ENV = {"ASAN_OPTIONS": "detect_leaks=0:abort_on_error=0:halt_on_error=1:exitcode=77:symbolize=1", "ASAN_SYMBOLIZER_PATH": "/usr/bin/llvm-symbolizer-14"}
TSAN_ENV = {"TSAN_OPTIONS": "halt_on_error=1:exitcode=66:second_deadlock_stack=1"}

plan("C11", "exploration",
     [worker("native", ["kernels", "C11"]),
      worker("asan", ["kernels", "C11", "--reps", "2"], build="asan", tiers=("thorough",), env=ASAN_ENV, sanitizer="asan"),
      worker("miri", ["kernels", "C11", "--reps", "1", "--max-len", "70", "--offsets", "4", "--classes", "34"], build="miri", tiers=("thorough",), sanitizer="miri", watchdog=(3600, 3600))],
     ["value ranges are chosen so that no f32 intermediate overflows (|x| <= 1e17) and underflow is covered by an absolute term; NaN/inf inputs are C20's",
      "NEON code paths cannot run on this x86-64 host",
      "a clean sanitizer run is not memory safety: red zones miss non-adjacent over-reads"],
     "distances equal the metric's definition",
     "All lengths 1..=300 x all 16 byte offsets x 8 value classes x 4 metrics through the public Distance functions on Leafs borrowed from exact-size heap buffers, every kernel (plain/SSE/AVX) directly through the hook, dispatch rule, symmetry, self-distance, range; thorough adds an ASan leg (over-read = report) and a Miri leg on the pure-Rust kernels.",
     "f64 oracle with proven rounding bounds; host CPU features decide which kernels run",
     "runtime monitoring: differential f64 oracle over kernel/Distance outputs + ASan/Miri on the SIMD kernels",
     "DESIGN.md §3 C11, §4")

plan("C12", "exploration",
     [worker("native", ["bq", "C12"]),
      worker("asan", ["bq", "C12", "--random", "40", "--exhaustive", "9"], build="asan", tiers=("thorough",), env=ASAN_ENV, sanitizer="asan"),
      worker("miri", ["bq", "C12", "--random", "3", "--exhaustive", "4", "--max-dim", "130", "--e2e", "0"], build="miri", tiers=("thorough",), sanitizer="miri", watchdog=(3600, 3600))],
     ["NEON conversion paths cannot run on this x86-64 host",
      "BQ-Cosine goes through fl(sqrt(L))^2: equal patterns give |d| <= 4*2^-23 rather than exactly 0; Euclidean/Manhattan are required to be exactly 0"],
     "binary quantisation keeps the sign pattern",
     "Every dimension 1..=300; all 2^d sign patterns for d<=12 (14 thorough), hundreds of random ones beyond, hostile component representatives (+-0, NaNs, inf, subnormals); every conversion path incl. plain/SIMD through the hook; three quantised distances along chains of increasing Hamming distance; end-to-end through Writer/Reader. Thorough adds ASan and Miri legs on the codec.",
     "exact integer oracle (Hamming counts)",
     "runtime monitoring: exact sign-pattern oracle on codec paths and quantised distances + ASan/Miri on the codec",
     "DESIGN.md §3 C12, §4")

MIRI_SEEDS_ENV = {"MIRIFLAGS": "-Zmiri-disable-isolation -Zmiri-deterministic-floats -Zmiri-many-seeds=0..16 -Zmiri-preemption-rate=0.2"}

plan("C13", "exploration",
     [explorer("C13"),
      worker("stress", ["ids", "C13"]),
      worker("tsan", ["explore", "C13", "--cases", "160"], build="tsan", tiers=("thorough",), env=TSAN_ENV, sanitizer="tsan", watchdog=(3600, 3600)),
      worker("tsan-stress", ["ids", "C13", "--cases", "400"], build="tsan", tiers=("thorough",), env=TSAN_ENV, sanitizer="tsan", watchdog=(3600, 3600)),
      worker("miri", ["ids", "C13", "--small", "1"], build="miri", shards=16, tiers=("thorough",), env=MIRI_SEEDS_ENV, sanitizer="miri", watchdog=(3600, 3600))],
     ["interleavings are sampled (native stress with seeded noise, Miri's scheduler over 16 seeds with preemption), not enumerated",
      "ThreadSanitizer only sees synchronisation it intercepts; LMDB's C code is not instrumented"],
     "parallel tree updates never collide",
     "In situ: id log of real multi-threaded builds (unique, disjoint from ids in use) + C01 walker, with seeded noise at hook points. Direct: stress of the exported id generator from 2-16 threads. Thorough: TSan on both, Miri many-seeds on the generator over every used subset of {0..4}.",
     "hook exports ConcurrentNodeIds and logs ids; scheduling noise is add-only",
     "runtime monitoring: offline exactly-once/disjointness check over the hooked id log, thread stress, TSan and Miri schedulers",
     "DESIGN.md §3 C13, §4, §5")

plan("C10", "fault_enumeration",
     [worker("native", ["faults", "C10"], watchdog=(1200, 7200))],
     ["cancellation callbacks are monotone (once true, always true)",
      "temp-file write failures are injected with RLIMIT_FSIZE (EFBIG), not with a full disk"],
     "failed / cancelled builds report it and roll back",
     "Fault enumeration over the real build: cancellation from the n-th poll for every n of a complete build (all n thorough), on states with pending insertions/deletions and forests that must grow or shrink, pools of 1 and 4 threads; LMDB map sizes from 64 KiB to 8 MiB; unusable temp dirs and failing temp-file writes; fd and temp-dir leak probes across hundreds of faulted builds per process. Oracle: right error (or Ok with a valid forest), never a panic, raw dump after abort == before, clean retry valid.",
     "LMDB abort semantics trusted; faults injected at the callback / resource boundary",
     "runtime monitoring under enumerated injected faults (cancel point, map size, temp dir, write limit) with dump-equality and leak probes",
     "DESIGN.md §3 C10")
