#!/bin/bash
# Official pass: applies each seeded change to /repo, runs the quick check(s) of the property it breaks
# (plus any extra properties given as "id:Cxx,Cyy" arguments), undoes the change, records the outcome.
cd /verif
out=seeded/MATRIX.txt
: > $out
for d in seeded/*/; do
  id=$(basename $d); prop=${id%%-*}
  [ -f $d/patch.diff ] || continue
  if ! git -C /repo apply --check $PWD/$d/patch.diff 2>/dev/null; then echo "$id patch does not apply" | tee -a $out; continue; fi
  git -C /repo apply $PWD/$d/patch.diff
  start=$(date +%s)
  res=$(./check $prop 2>&1); rc=$?
  first=$(echo "$res" | grep "violation \[" | head -1 | cut -c1-260)
  git -C /repo checkout -- . ; git -C /repo clean -fdq src/
  echo "$id check=$prop rc=$rc $(( $(date +%s) - start ))s :: $first" | tee -a $out
done
git -C /repo status --short
