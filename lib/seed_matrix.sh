#!/bin/bash
# Official pass: applies each seeded change to /repo, runs the quick check of the property it breaks,
# undoes the change and records the outcome in seeded/MATRIX.txt.
# usage: lib/seed_matrix.sh [seed-id ...]     (default: every seed; given ids replace their lines)
cd /verif
out=seeded/MATRIX.txt
touch $out
if [ $# -eq 0 ]; then ids=$(ls -d seeded/*/ | xargs -n1 basename); : > $out; else ids="$*"; fi
for id in $ids; do
  d=seeded/$id; prop=${id%%-*}
  [ -f $d/patch.diff ] || continue
  grep -v "^$id " $out > $out.tmp; mv $out.tmp $out
  if ! git -C /repo apply --check $PWD/$d/patch.diff 2>/dev/null; then echo "$id patch does not apply" | tee -a $out; continue; fi
  git -C /repo apply $PWD/$d/patch.diff
  start=$(date +%s)
  res=$(./check $prop 2>&1); rc=$?
  first=$(echo "$res" | grep "violation \[" | head -1 | cut -c1-260)
  git -C /repo checkout -- . ; git -C /repo clean -fdq src/
  rm -f /tmp/arroy-*.lock
  nv=$(echo "$res" | grep -c "^VIOLATION")
  echo "$id check=$prop rc=$rc viol=$nv $(( $(date +%s) - start ))s :: $first" | tee -a $out
done
sort -o $out $out
git -C /repo status --short
