#!/usr/bin/env python3
"""Applies the add-only `cfg(arroy_verif)` hooks to a checkout of arroy (cwd). Kept for reference:
the hooks are committed in /repo; this script documents exactly what was added."""
def patch(p, old, new, count=1):
    s=open(p).read()
    assert s.count(old)==count, (p, old, s.count(old))
    s=s.replace(old,new)
    open(p,'w').write(s)

patch('src/lib.rs', "pub mod upgrade;\n", "pub mod upgrade;\n#[cfg(arroy_verif)]\npub mod verif;\n")
s=open('Cargo.toml').read()
s+="""
[lints.rust]
unexpected_cfgs = { level = "warn", check-cfg = ['cfg(arroy_verif)'] }
"""
open('Cargo.toml','w').write(s)

s=open('src/spaces/mod.rs').read()
s+="""
/// Direct access to every kernel, whatever the runtime dispatch would pick (verification hook).
#[cfg(arroy_verif)]
#[allow(missing_docs)]
pub mod verif_kernels {
    use crate::unaligned_vector::UnalignedVector;

    pub fn dispatched_euclid(u: &UnalignedVector<f32>, v: &UnalignedVector<f32>) -> f32 {
        super::simple::euclidean_distance(u, v)
    }
    pub fn dispatched_dot(u: &UnalignedVector<f32>, v: &UnalignedVector<f32>) -> f32 {
        super::simple::dot_product(u, v)
    }
    pub fn plain_euclid(u: &UnalignedVector<f32>, v: &UnalignedVector<f32>) -> f32 {
        super::simple::euclidean_distance_non_optimized(u, v)
    }
    pub fn plain_dot(u: &UnalignedVector<f32>, v: &UnalignedVector<f32>) -> f32 {
        super::simple::dot_product_non_optimized(u, v)
    }
    #[cfg(target_arch = "x86_64")]
    pub fn sse_euclid(u: &UnalignedVector<f32>, v: &UnalignedVector<f32>) -> Option<f32> {
        is_x86_feature_detected!("sse").then(|| unsafe { super::simple_sse::euclid_similarity_sse(u, v) })
    }
    #[cfg(target_arch = "x86_64")]
    pub fn sse_dot(u: &UnalignedVector<f32>, v: &UnalignedVector<f32>) -> Option<f32> {
        is_x86_feature_detected!("sse").then(|| unsafe { super::simple_sse::dot_similarity_sse(u, v) })
    }
    #[cfg(target_arch = "x86_64")]
    pub fn avx_euclid(u: &UnalignedVector<f32>, v: &UnalignedVector<f32>) -> Option<f32> {
        (is_x86_feature_detected!("avx") && is_x86_feature_detected!("fma"))
            .then(|| unsafe { super::simple_avx::euclid_similarity_avx(u, v) })
    }
    #[cfg(target_arch = "x86_64")]
    pub fn avx_dot(u: &UnalignedVector<f32>, v: &UnalignedVector<f32>) -> Option<f32> {
        (is_x86_feature_detected!("avx") && is_x86_feature_detected!("fma"))
            .then(|| unsafe { super::simple_avx::dot_similarity_avx(u, v) })
    }
}
"""
open('src/spaces/mod.rs','w').write(s)

s=open('src/unaligned_vector/binary_quantized.rs').read()
s+="""
/// Direct access to each conversion path (verification hook).
#[cfg(arroy_verif)]
#[allow(missing_docs)]
pub mod verif_hooks {
    use super::*;

    pub fn from_slice_plain(slice: &[f32]) -> Vec<u8> {
        from_slice_non_optimized(slice)
    }
    pub fn to_vec_plain(vec: &UnalignedVector<BinaryQuantized>) -> Vec<f32> {
        to_vec_non_optimized(vec)
    }
    #[cfg(target_arch = "x86_64")]
    pub fn to_vec_simd(vec: &UnalignedVector<BinaryQuantized>) -> Option<Vec<f32>> {
        is_x86_feature_detected!("sse").then(|| unsafe { to_vec_sse(vec) })
    }
}
"""
open('src/unaligned_vector/binary_quantized.rs','w').write(s)
patch('src/unaligned_vector/mod.rs', "pub use binary_quantized::BinaryQuantized;\n", "pub use binary_quantized::BinaryQuantized;\n#[cfg(arroy_verif)]\npub use binary_quantized::verif_hooks as verif_bq;\n")

patch('src/parallel.rs', """    pub fn new(used: RoaringBitmap) -> ConcurrentNodeIds {
""", """    pub fn new(used: RoaringBitmap) -> ConcurrentNodeIds {
        #[cfg(arroy_verif)]
        crate::verif::log_used(&used);
""")
patch('src/parallel.rs', """    pub fn next(&self) -> Result<u32> {
        if self.used.fetch_add(1, Ordering::Relaxed) > u32::MAX as u64 {
            Err(Error::DatabaseFull)
        } else if self.look_into_bitmap.load(Ordering::Relaxed) {
            let current = self.select_in_bitmap.fetch_add(1, Ordering::Relaxed);
            match self.available.select(current) {
                Some(id) => Ok(id),
                None => {
                    self.look_into_bitmap.store(false, Ordering::Relaxed);
                    Ok(self.current.fetch_add(1, Ordering::Relaxed))
                }
            }
        } else {
            Ok(self.current.fetch_add(1, Ordering::Relaxed))
        }
    }""", """    pub fn next(&self) -> Result<u32> {
        #[cfg(arroy_verif)]
        crate::verif::chaos(10);
        if self.used.fetch_add(1, Ordering::Relaxed) > u32::MAX as u64 {
            Err(Error::DatabaseFull)
        } else if self.look_into_bitmap.load(Ordering::Relaxed) {
            #[cfg(arroy_verif)]
            crate::verif::chaos(11);
            let current = self.select_in_bitmap.fetch_add(1, Ordering::Relaxed);
            #[cfg(arroy_verif)]
            crate::verif::chaos(12);
            match self.available.select(current) {
                Some(id) => Ok(id),
                None => {
                    #[cfg(arroy_verif)]
                    crate::verif::chaos(13);
                    self.look_into_bitmap.store(false, Ordering::Relaxed);
                    #[cfg(arroy_verif)]
                    crate::verif::chaos(14);
                    Ok(self.current.fetch_add(1, Ordering::Relaxed))
                }
            }
        } else {
            #[cfg(arroy_verif)]
            crate::verif::chaos(15);
            Ok(self.current.fetch_add(1, Ordering::Relaxed))
        }
    }""")

patch('src/writer.rs', """            let new_id = concurrent_node_ids.next()?;
            roots.push(new_id);""", """            let new_id = concurrent_node_ids.next()?;
            #[cfg(arroy_verif)]
            crate::verif::log_id(0, new_id);
            roots.push(new_id);""")
patch('src/writer.rs', """                    let node_id = frozen_reader.concurrent_node_ids.next()?;
                    let node_id = NodeId::tree(node_id);""", """                    let node_id = frozen_reader.concurrent_node_ids.next()?;
                    #[cfg(arroy_verif)]
                    crate::verif::log_id(1, node_id);
                    let node_id = NodeId::tree(node_id);""")
patch('src/writer.rs', """            let item_id = reader.concurrent_node_ids.next()?;
            let item = Node::Descendants""", """            let item_id = reader.concurrent_node_ids.next()?;
            #[cfg(arroy_verif)]
            crate::verif::log_id(2, item_id);
            let item = Node::Descendants""")
patch('src/writer.rs', """        let new_node_id = reader.concurrent_node_ids.next()?;
        tmp_nodes.put(new_node_id, &Node::SplitPlaneNormal(normal))?;""", """        let new_node_id = reader.concurrent_node_ids.next()?;
        #[cfg(arroy_verif)]
        crate::verif::log_id(3, new_node_id);
        tmp_nodes.put(new_node_id, &Node::SplitPlaneNormal(normal))?;""")
patch('src/writer.rs', """            .map(|(seed, root)| {
                opt.cancelled()?;
                tracing::debug!("started updating tree {root:X}...");""", """            .map(|(seed, root)| {
                #[cfg(arroy_verif)]
                crate::verif::chaos(1);
                opt.cancelled()?;
                tracing::debug!("started updating tree {root:X}...");""")
patch('src/writer.rs', """        while let Some(descendant_id) = large_descendants.select(0) {
            large_descendants.remove_smallest(1);
            options.cancelled()?;""", """        while let Some(descendant_id) = large_descendants.select(0) {
            #[cfg(arroy_verif)]
            if crate::verif::tick(0) {
                return Err(Error::BuildCancelled);
            }
            large_descendants.remove_smallest(1);
            options.cancelled()?;""")
patch('src/writer.rs', """        while !to_insert.is_empty() {
            options.cancelled()?;
""", """        while !to_insert.is_empty() {
            #[cfg(arroy_verif)]
            if crate::verif::tick(1) {
                return Err(Error::BuildCancelled);
            }
            options.cancelled()?;
""")
print("hooks applied")
