#!/bin/sh
# Runs every check of a tier sequentially; prints one line per property. Usage: lib/run_all.sh quick|thorough [props...]
tier=${1:-quick}; shift
props=${*:-C01 C02 C03 C04 C05 C06 C07 C08 C09 C10 C11 C12 C13 C14 C15 C16 C17 C18 C19 C20}
cd "$(dirname "$0")/.."
for p in $props; do
  start=$(date +%s)
  out=$(./check $p --tier $tier 2>&1); rc=$?
  echo "$p rc=$rc $(( $(date +%s) - start ))s :: $(echo "$out" | tail -1)"
  if [ $rc -ne 0 ]; then echo "$out" | grep -v '^VIOLATION' | tail -8; fi
done
